// C14 harness: race / stress run of the real handler.  Built with -race.
//
// Parent mode (default): compiles two generations of a data file into CDB files and
// RocksDB directories (v1 and v2 keys) with the real compilers, then runs every scenario in
// a CHILD process (this binary, -child) under GORACE="halt_on_error=0 log_path=...", with a
// hard timeout.  Race reports are parsed into (file, line, write?) pairs; one case per
// distinct racing pair plus one summary case per scenario (panics, watchdog) are emitted.
//
// Child mode: N query workers x reloader (full and partial reloads, optionally with tiny
// reload timeouts so that helper goroutines overlap) x stats reporter (ReportBackendStats,
// Stats.Get) x optional watcher goroutine (WatchDBAndReload + a consumer of ReloadChan + a
// goroutine touching files in the watched directory) for the given duration, then a
// shutdown (Close concurrently with in-flight queries that already hold their reader).
package main

import (
	"bufio"
	"context"
	"encoding/json"
	"flag"
	"fmt"
	"io"
	"os"
	"os/exec"
	"path/filepath"
	"regexp"
	"runtime"
	"sort"
	"strconv"
	"strings"
	"sync"
	"sync/atomic"
	"time"

	"github.com/coredns/coredns/plugin/pkg/dnstest"
	"github.com/miekg/dns"

	"github.com/facebookincubator/dns/dnsrocks/dnsdata/cdb"
	"github.com/facebookincubator/dns/dnsrocks/dnsdata/rdb"
	"github.com/facebookincubator/dns/dnsrocks/dnsserver"
	"github.com/facebookincubator/dns/dnsrocks/dnsserver/test"
	dlogger "github.com/facebookincubator/dns/dnsrocks/logger"
	"github.com/facebookincubator/dns/dnsrocks/metrics"

	"verifharness/hlib"
)

// Scenario is the input of one stress run (and of a replay).
type Scenario struct {
	Name      string `json:"name"`
	Backend   string `json:"backend"` // cdb | rdb1 | rdb2
	Workers   int    `json:"workers"`
	Millis    int    `json:"millis"`     // duration of the concurrent phase
	TimeoutUs int    `json:"timeout_us"` // DBConfig.ReloadTimeout in microseconds (0 = 10 s)
	FullPct   int    `json:"full_pct"`   // percentage of full reloads
	Watcher   bool   `json:"watcher"`
	Windows   bool   `json:"windows"` // ServeDNS (AddSample, sliding windows) instead of ServeDNSWithRCODE
	Cache     bool   `json:"cache"`
	Update    bool   `json:"update"` // write to the RocksDB primary between partial reloads
	NoStats   bool   `json:"no_stats"`
	Logger    string `json:"logger"` // "" (DummyLogger) | text (TextLogger to io.Discard) | dnstap (logger.DNSTapLoggger, sampled)
	Seed      uint64 `json:"seed"`
}

// Side is one access of a race report.
type Side struct {
	File  string `json:"file"` // below dnsrocks/ when inside the repository
	Line  int    `json:"line"`
	Write bool   `json:"write"`
	Func  string `json:"func"`
}

// Case is one observation.
type Case struct {
	Class    string   `json:"class"` // race | scenario
	Scenario Scenario `json:"scenario"`
	A        *Side    `json:"a,omitempty"`
	B        *Side    `json:"b,omitempty"`
	Report   string   `json:"report,omitempty"`
	Panics   int      `json:"panics"`
	Timeout  bool     `json:"timeout"`
	Queries  int64    `json:"queries"`
	Reloads  int64    `json:"reloads"`
	RelErrs  int64    `json:"reload_errors"`
	Races    int      `json:"races"`
	Detail   string   `json:"detail,omitempty"`
	CrashKnd string   `json:"crash_kind,omitempty"` // first line naming a crash of the child process
	CrashCgo []string `json:"crash_cgo,omitempty"`  // C functions that were executing when it crashed
	RaceBld  bool     `json:"race_detector"`
}

// ---------------------------------------------------------------- data

func dataText(gen int) string {
	var b strings.Builder
	w := func(s string) { b.WriteString(s); b.WriteByte('\n') }
	for _, m := range []string{"c\\000", "ec"} {
		w("%\\000\\002,10.1.0.0/16," + m)
		w("%\\000\\003,10.2.0.0/16," + m)
		w("%\\000\\004,fd00:1::/32," + m)
		w("%\\000\\001,0.0.0.0/0," + m)
		w("%\\000\\001,::/0," + m)
	}
	for _, z := range []string{"example.com", "example.net"} {
		w("M" + z + ",c\\000")
		w("8" + z + ",ec")
		w("Z" + z + ",a.ns." + z + ",dns." + z + ",123,7200,1800,604800,120,120,,")
		w("&" + z + ",,a.ns." + z + ",172800,,")
		w("&" + z + ",,b.ns." + z + ",172800,,")
		w("=a.ns." + z + ",5.5.5.5,172800,,")
		w("=b.ns." + z + ",fd09:14f5:dead:beef:2::35,172800,,")
		w("&sub." + z + ",,ns.sub." + z + ",172800,,")
		w("=ns.sub." + z + ",6.6.6.6,172800,,")
		w(fmt.Sprintf("+www.%s,1.1.1.%d,180,,\\000\\002,1", z, gen))
		w(fmt.Sprintf("+www.%s,1.1.2.%d,180,,\\000\\003,1", z, gen))
		w(fmt.Sprintf("+www.%s,1.1.3.%d,180,,\\000\\001,1", z, gen))
		w(fmt.Sprintf("+www.%s,fd24:7859:f076:2a21::%d,180,,\\000\\004,1", z, gen))
		w(fmt.Sprintf("=bar.%s,2.2.2.%d,180,,", z, gen))
		w("+wrr." + z + ",1.1.1.1,180,,,4321")
		w("+wrr." + z + ",1.1.1.2,180,,,1234")
		w("+wrr." + z + ",1.1.1.3,180,,,5678")
		// several A and AAAA records of positive weight: answers with max answer > 1 carry
		// two or more addresses (the weighted selection shuffles them)
		for i := 1; i <= 5; i++ {
			w(fmt.Sprintf("+multi.%s,3.3.%d.%d,180,,,%d", z, gen, i, 100*i))
			w(fmt.Sprintf("+multi.%s,fd24:7859:f076:3333::%d:%d,180,,,%d", z, gen, i, 100*i))
			w(fmt.Sprintf("+multi4.%s,4.4.%d.%d,180,,\\000\\002,%d", z, gen, i, 50*i))
			w(fmt.Sprintf("+multi4.%s,4.5.%d.%d,180,,\\000\\001,%d", z, gen, i, 50*i))
		}
		w("Cwww2." + z + ",bar." + z + ",3600,,")
		w("C*." + z + ",bar." + z + ",1800,,")
		w("@" + z + ",,mx." + z + ",10,300")
		for i := 0; i < 120; i++ {
			w(fmt.Sprintf("=h%d.%s,9.%d.%d.%d,300,,", i, z, gen, i/200, i%200))
		}
	}
	return b.String()
}

type paths struct {
	Cdb  [2]string
	Rdb1 [2]string
	Rdb2 [2]string
}

func buildData(dir string) (*paths, error) {
	p := &paths{}
	var firstErr error
	fail := func(err error) {
		if firstErr == nil {
			firstErr = err
		}
	}
	for g := 0; g < 2; g++ {
		in := filepath.Join(dir, fmt.Sprintf("data%d.in", g))
		if err := os.WriteFile(in, []byte(dataText(g+1)), 0o644); err != nil {
			return nil, err
		}
		cd := filepath.Join(dir, fmt.Sprintf("cdb%d", g))
		os.MkdirAll(cd, 0o755)
		p.Cdb[g] = filepath.Join(cd, "data.cdb")
		p.Rdb1[g] = filepath.Join(dir, fmt.Sprintf("rdb1_%d", g))
		p.Rdb2[g] = filepath.Join(dir, fmt.Sprintf("rdb2_%d", g))
		if _, err := cdb.CreateCDB(in, p.Cdb[g], nil); err != nil {
			fail(fmt.Errorf("CreateCDB: %w", err))
		}
		for v := 1; v <= 2; v++ {
			d := p.Rdb1[g]
			if v == 2 {
				d = p.Rdb2[g]
			}
			if v == 1 && g == 1 {
				// v1 keys: the second directory is a copy of the first (saves one compilation;
				// the scenarios on v1 keys reload between two equal generations)
				if out, err := exec.Command("cp", "-a", p.Rdb1[0], d).CombinedOutput(); err != nil {
					fail(fmt.Errorf("cp: %v: %s", err, out))
				}
				continue
			}
			os.MkdirAll(d, 0o755)
			if _, err := rdb.CompileToSpecificRDBVersion(in, d, rdb.CompilationOptions{UseV2KeySyntax: v == 2, UseBuilder: true}); err != nil {
				fail(fmt.Errorf("CompileToSpecificRDBVersion: %w", err))
			}
		}
	}
	return p, firstErr
}

func (p *paths) of(backend string) ([2]string, string) {
	switch backend {
	case "cdb":
		return p.Cdb, "cdb"
	case "rdb1":
		return p.Rdb1, "rocksdb"
	}
	return p.Rdb2, "rocksdb"
}

// ---------------------------------------------------------------- child: one scenario

type childOut struct {
	Queries int64  `json:"queries"`
	Reloads int64  `json:"reloads"`
	RelErrs int64  `json:"reload_errors"`
	Panics  int64  `json:"panics"`
	Timeout bool   `json:"timeout"`
	Detail  string `json:"detail"`
	Done    bool   `json:"done"`
}

type gateKey struct{}

type gateState struct{ released int32 }

var (
	names = []string{"www.example.com.", "bar.example.com.", "wrr.example.com.", "www2.example.com.", "nx.example.com.",
		"h7.example.com.", "h99.example.net.", "www.example.net.", "deep.sub.example.com.", "example.com.", "other.org.",
		"a.ns.example.com.", "x.y.z.example.net."}
	multiNames = []string{"multi.example.com.", "multi.example.net.", "multi4.example.com.", "wrr.example.com.", "wrr.example.net."}
	maxAnswers = []int{1, 2, 3, 8}
	qtypes     = []uint16{dns.TypeA, dns.TypeAAAA, dns.TypeNS, dns.TypeSOA, dns.TypeMX, dns.TypeCNAME, dns.TypeTXT, dns.TypeDS}
	clients    = []string{"10.1.2.3", "10.2.9.9", "192.0.2.1", "fd00:1::5", "2001:db8::1"}
	subnets    = []string{"", "", "10.1.5.0/24", "10.2.0.0/16", "fd00:1:2::/48", "203.0.113.0/24"}
)

// mkQuery draws one question.  Besides the known names / types it keeps producing values the
// code has NOT seen before in everything a request carries that indexes a package-level table
// (of dnsrocks or of the libraries): query types and classes without a mnemonic, opcodes,
// EDNS versions and option codes - so that first sights keep happening during the whole run.
func mkQuery(r *hlib.Rng) *dns.Msg {
	req := new(dns.Msg)
	qt := qtypes[r.Intn(len(qtypes))]
	if r.Chance(1, 3) {
		for {
			qt = uint16(300 + r.Intn(64700))
			if _, known := dns.TypeToString[qt]; !known {
				break
			}
		}
	}
	nm := names[r.Intn(len(names))]
	if r.Chance(1, 4) {
		// a name with several weighted addresses, asked for an address type
		nm = multiNames[r.Intn(len(multiNames))]
		qt = dns.TypeA
		if r.Chance(1, 2) {
			qt = dns.TypeAAAA
		}
	}
	req.SetQuestion(nm, qt)
	if r.Chance(1, 6) {
		req.Question[0].Qclass = uint16(5 + r.Intn(65000)) // no mnemonic (CLASSnnnn), or NONE / ANY
	}
	if r.Chance(1, 8) {
		req.Opcode = r.Intn(16) // QUERY, IQUERY, STATUS, NOTIFY, UPDATE and unassigned ones
	}
	if r.Chance(1, 10) {
		req.Rcode = r.Intn(24) // a query normally carries 0
	}
	if sn := subnets[r.Intn(len(subnets))]; sn != "" {
		if o, err := dnsserver.MakeOPTWithECS(sn); err == nil {
			req.Extra = []dns.RR{o}
		}
	} else if r.Chance(1, 2) {
		req.SetEdns0(uint16(512+r.Intn(4000)), r.Chance(1, 2))
	}
	if o := req.IsEdns0(); o != nil {
		if r.Chance(1, 8) {
			o.SetVersion(uint8(1 + r.Intn(254))) // BADVERS path
		}
		for k := r.Intn(3); k > 0; k-- {
			switch r.Intn(4) {
			case 0:
				o.Option = append(o.Option, &dns.EDNS0_LOCAL{Code: uint16(20 + r.Intn(65000)), Data: r.Bytes(r.Intn(6), nil)})
			case 1:
				o.Option = append(o.Option, &dns.EDNS0_COOKIE{Code: dns.EDNS0COOKIE, Cookie: "0102030405060708"})
			case 2:
				o.Option = append(o.Option, &dns.EDNS0_NSID{Code: dns.EDNS0NSID})
			case 3:
				o.Option = append(o.Option, &dns.EDNS0_PADDING{Padding: make([]byte, r.Intn(8))})
			}
		}
	}
	return req
}

func runChild(sc Scenario, pjson string) {
	var p paths
	if err := json.Unmarshal([]byte(pjson), &p); err != nil {
		fmt.Fprintln(os.Stderr, "child: bad paths:", err)
		os.Exit(2)
	}
	// glog: no "logging before flag.Parse" noise, log files go to TMPDIR (= the scratch directory)
	flag.CommandLine.Parse(nil)
	flag.Set("stderrthreshold", "FATAL")
	dbs, driver := p.of(sc.Backend)
	st := metrics.NewStats()
	to := 10 * time.Second
	if sc.TimeoutUs > 0 {
		to = time.Duration(sc.TimeoutUs) * time.Microsecond
	}
	var lg dnsserver.Logger = &dnsserver.DummyLogger{}
	switch sc.Logger {
	case "text":
		lg = &dnsserver.TextLogger{IoWriter: io.Discard}
	case "dnstap":
		// the production logger; its output loop is not started (no collector here): messages are
		// built, sampled and enqueued until the buffer is full, then dropped
		dl, err := dlogger.NewLogger(dlogger.Config{Target: "tcp", Remote: "127.0.0.1:9", LogFormat: "text", SamplingRate: 0.3,
			Timeout: 1, FlushInterval: 1, Retry: 1})
		if err != nil {
			fmt.Fprintln(os.Stderr, "child: NewLogger:", err)
			os.Exit(2)
		}
		lg = dl
	}
	h, err := dnsserver.NewFBDNSDBBasic(dnsserver.HandlerConfig{AlwaysCompress: sc.Logger == "text"},
		dnsserver.DBConfig{Path: dbs[0], Driver: driver, ReloadTimeout: to},
		dnsserver.CacheConfig{Enabled: sc.Cache, LRUSize: 64}, lg, st)
	if err != nil {
		fmt.Fprintln(os.Stderr, "child: NewFBDNSDBBasic:", err)
		os.Exit(2)
	}
	if err := h.Load(); err != nil {
		fmt.Fprintln(os.Stderr, "child: Load:", err)
		os.Exit(2)
	}

	var out childOut
	var queries, reloads, relErrs, panics int64
	var firstPanic atomic.Value
	var stop, stopAux int32
	var gate sync.RWMutex // workers start a query under RLock and release it once they hold their reader
	closing := false

	dnsserver.SetVerifYieldHook(func(ctx context.Context, point string) {
		if point != "acquired" {
			return
		}
		if g, ok := ctx.Value(gateKey{}).(*gateState); ok && atomic.CompareAndSwapInt32(&g.released, 0, 1) {
			gate.RUnlock()
		}
	})

	report := func() {
		out.Queries = atomic.LoadInt64(&queries)
		out.Reloads = atomic.LoadInt64(&reloads)
		out.RelErrs = atomic.LoadInt64(&relErrs)
		out.Panics = atomic.LoadInt64(&panics)
		if v := firstPanic.Load(); v != nil {
			out.Detail = v.(string)
		}
		b, _ := json.Marshal(out)
		fmt.Println("C14CHILD " + string(b))
	}

	// watchdog: no query finished for a while => dump and give up
	go func() {
		last := int64(-1)
		lastChange := time.Now()
		for {
			time.Sleep(200 * time.Millisecond)
			q := atomic.LoadInt64(&queries) + atomic.LoadInt64(&reloads)
			if q != last {
				last = q
				lastChange = time.Now()
				continue
			}
			if time.Since(lastChange) > 40*time.Second {
				buf := make([]byte, 1<<20)
				n := runtime.Stack(buf, true)
				fmt.Fprintf(os.Stderr, "WATCHDOG: no progress for 40s\n%s\n", buf[:n])
				out.Timeout = true
				report()
				os.Exit(3)
			}
		}
	}()

	var wg sync.WaitGroup
	for w := 0; w < sc.Workers; w++ {
		wg.Add(1)
		go func(w int) {
			defer wg.Done()
			r := hlib.NewRng(sc.Seed, uint64(100+w))
			for atomic.LoadInt32(&stop) == 0 {
				gate.RLock()
				if closing {
					gate.RUnlock()
					return
				}
				g := &gateState{}
				func() {
					defer func() {
						if e := recover(); e != nil {
							atomic.AddInt64(&panics, 1)
							buf := make([]byte, 4096)
							n := runtime.Stack(buf, false)
							firstPanic.CompareAndSwap(nil, fmt.Sprintf("panic in query: %v\n%s", e, buf[:n]))
						}
						if atomic.CompareAndSwapInt32(&g.released, 0, 1) {
							gate.RUnlock()
						}
					}()
					req := mkQuery(r)
					ctx := context.WithValue(dnsserver.WithMaxAnswer(context.Background(), maxAnswers[r.Intn(len(maxAnswers))]), gateKey{}, g)
					rec := dnstest.NewRecorder(&test.ResponseWriterCustomRemote{RemoteIP: clients[r.Intn(len(clients))]})
					if sc.Windows {
						h.ServeDNS(ctx, rec, req)
					} else {
						h.ServeDNSWithRCODE(ctx, rec, req)
					}
				}()
				atomic.AddInt64(&queries, 1)
			}
		}(w)
	}

	var aux sync.WaitGroup
	// reloader
	aux.Add(1)
	go func() {
		defer aux.Done()
		r := hlib.NewRng(sc.Seed, 7)
		cur := 0
		updates := 0
		for atomic.LoadInt32(&stopAux) == 0 {
			var err error
			if r.Intn(100) < sc.FullPct {
				cur = 1 - cur
				err = h.Reload(*dnsserver.NewFullReloadSignal(dbs[cur]))
			} else {
				if sc.Update && sc.Backend != "cdb" && sc.TimeoutUs == 0 {
					// a writer changes the primary, the served secondary catches up
					if u, e := rdb.NewUpdater(dbs[cur]); e == nil {
						updates++
						u.Add([]byte(fmt.Sprintf("\x00verif-c14-%d", updates%50)), []byte{byte(updates)})
						u.Close()
					}
				}
				err = h.Reload(*dnsserver.NewPartialReloadSignal())
			}
			atomic.AddInt64(&reloads, 1)
			if err != nil {
				atomic.AddInt64(&relErrs, 1)
			}
			time.Sleep(time.Duration(r.Intn(3000)) * time.Microsecond)
		}
	}()
	// stats reporter
	aux.Add(1)
	go func() {
		defer aux.Done()
		for atomic.LoadInt32(&stopAux) == 0 && !sc.NoStats {
			h.ReportBackendStats()
			_ = st.Get()
			time.Sleep(500 * time.Microsecond)
		}
	}()
	// watcher goroutine of the real code, a consumer of ReloadChan as in NewFBDNSDB, and a
	// goroutine that changes files in the watched directory
	var touchStop int32
	var wwg sync.WaitGroup
	if sc.Watcher {
		go func() {
			for s := range h.ReloadChan {
				if err := h.Reload(s); err != nil {
					atomic.AddInt64(&relErrs, 1)
				}
				atomic.AddInt64(&reloads, 1)
			}
		}()
		go func() { _ = h.WatchDBAndReload() }()
		wwg.Add(1)
		go func() {
			defer wwg.Done()
			i := 0
			for atomic.LoadInt32(&touchStop) == 0 {
				i++
				for g := 0; g < 2; g++ {
					d := filepath.Dir(dbs[g])
					os.WriteFile(filepath.Join(d, "touch-c14"), []byte(strconv.Itoa(i)), 0o644)
					if sc.Backend == "cdb" && i%8 == 0 {
						now := time.Now()
						os.Chtimes(dbs[g], now, now)
					}
				}
				time.Sleep(2 * time.Millisecond)
			}
		}()
	}

	time.Sleep(time.Duration(sc.Millis) * time.Millisecond)

	// shutdown: reloader, reporter and file changes stop; queries that already hold a reader
	// race with Close
	atomic.StoreInt32(&stopAux, 1)
	atomic.StoreInt32(&touchStop, 1)
	aux.Wait()
	wwg.Wait()
	if sc.Watcher {
		time.Sleep(100 * time.Millisecond) // let pending fsnotify events drain into reloads
	}
	gate.Lock()
	closing = true
	gate.Unlock()
	func() {
		defer func() {
			if e := recover(); e != nil {
				atomic.AddInt64(&panics, 1)
				firstPanic.CompareAndSwap(nil, fmt.Sprintf("panic in Close: %v", e))
			}
		}()
		h.Close()
	}()
	atomic.StoreInt32(&stop, 1)
	wg.Wait()
	time.Sleep(50 * time.Millisecond)
	out.Done = true
	report()
}

// ---------------------------------------------------------------- parent

var accessRe = regexp.MustCompile(`^(Previous )?(atomic )?(read|write|Read|Write|Atomic read|Atomic write) at 0x[0-9a-f]+ by `)
var cfuncRe = regexp.MustCompile(`_Cfunc_(\w+)\(`)
var crashRe = regexp.MustCompile(`(?m)^(fatal error: .*|panic: .*|SIG[A-Z]+: .*|WATCHDOG.*)$`)
var frameFileRe = regexp.MustCompile(`^\s+(\S+\.go):(\d+)( \+0x[0-9a-f]+)?$`)

func relPath(file string) (string, bool) {
	if i := strings.LastIndex(file, "/dnsrocks/"); i >= 0 {
		return file[i+len("/dnsrocks/"):], true
	}
	return file, false
}

// parseRaces splits race-detector output into reports and extracts the two accesses.
func parseRaces(text string) []Case {
	var res []Case
	blocks := strings.Split(text, "==================")
	for _, blk := range blocks {
		if !strings.Contains(blk, "WARNING: DATA RACE") {
			continue
		}
		lines := strings.Split(blk, "\n")
		var sides []*Side
		for i := 0; i < len(lines); i++ {
			m := accessRe.FindStringSubmatch(lines[i])
			if m == nil {
				continue
			}
			s := &Side{Write: strings.Contains(strings.ToLower(m[3]), "write")}
			var firstFile, firstFunc string
			firstLine := 0
			found := false
			for j := i + 1; j+1 < len(lines) && strings.TrimSpace(lines[j]) != ""; j += 2 {
				fm := frameFileRe.FindStringSubmatch(lines[j+1])
				if fm == nil {
					break
				}
				ln, _ := strconv.Atoi(fm[2])
				fn := strings.TrimSpace(lines[j])
				if firstFile == "" {
					firstFile, firstLine, firstFunc = fm[1], ln, fn
				}
				if rp, ok := relPath(fm[1]); ok {
					s.File, s.Line, s.Func = rp, ln, fn
					found = true
					break
				}
			}
			if !found {
				s.File, s.Line, s.Func = firstFile, firstLine, firstFunc
			}
			sides = append(sides, s)
		}
		if len(sides) >= 2 {
			rep := strings.TrimSpace(blk)
			if len(rep) > 6000 {
				rep = rep[:6000] + "\n..."
			}
			res = append(res, Case{Class: "race", A: sides[0], B: sides[1], Report: rep})
		}
	}
	return res
}

func raceKey(c Case) string {
	a := fmt.Sprintf("%s:%d:%v", c.A.File, c.A.Line, c.A.Write)
	b := fmt.Sprintf("%s:%d:%v", c.B.File, c.B.Line, c.B.Write)
	if a > b {
		a, b = b, a
	}
	return a + "|" + b
}

func runScenario(sc Scenario, pjson string, scratch string, idx int) (res []Case) {
	logBase := filepath.Join(scratch, fmt.Sprintf("c14-race-%d", idx))
	cmd := exec.Command(os.Args[0], "-child", mustJSON(sc), pjson)
	cmd.Env = append(os.Environ(), "GORACE=halt_on_error=0 log_path="+logBase+" history_size=3", "TMPDIR="+scratch)
	var stdout, stderr strings.Builder
	cmd.Stdout = &stdout
	cmd.Stderr = &stderr
	done := make(chan error, 1)
	if err := cmd.Start(); err != nil {
		return []Case{{Class: "scenario", Scenario: sc, Panics: 1, Detail: "cannot start child: " + err.Error(), RaceBld: raceEnabled}}
	}
	go func() { done <- cmd.Wait() }()
	hard := time.Duration(sc.Millis)*time.Millisecond + 120*time.Second
	timedOut := false
	var werr error
	select {
	case werr = <-done:
	case <-time.After(hard):
		timedOut = true
		cmd.Process.Signal(os.Interrupt)
		time.Sleep(200 * time.Millisecond)
		cmd.Process.Kill()
		werr = <-done
	}
	var co childOut
	got := false
	sc2 := bufio.NewScanner(strings.NewReader(stdout.String()))
	sc2.Buffer(make([]byte, 1<<20), 1<<24)
	for sc2.Scan() {
		if strings.HasPrefix(sc2.Text(), "C14CHILD ") {
			if json.Unmarshal([]byte(strings.TrimPrefix(sc2.Text(), "C14CHILD ")), &co) == nil {
				got = true
			}
		}
	}
	// race reports
	var text strings.Builder
	files, _ := filepath.Glob(logBase + ".*")
	sort.Strings(files)
	for _, f := range files {
		b, _ := os.ReadFile(f)
		text.Write(b)
		text.WriteString("\n")
		os.Remove(f)
	}
	if strings.Contains(stderr.String(), "WARNING: DATA RACE") {
		text.WriteString(stderr.String())
	}
	seen := map[string]bool{}
	n := 0
	for _, c := range parseRaces(text.String()) {
		k := raceKey(c)
		if seen[k] {
			continue
		}
		seen[k] = true
		c.Scenario = sc
		c.RaceBld = raceEnabled
		res = append(res, c)
		n++
	}
	sum := Case{Class: "scenario", Scenario: sc, Queries: co.Queries, Reloads: co.Reloads, RelErrs: co.RelErrs,
		Panics: int(co.Panics), Timeout: co.Timeout || timedOut, Races: n, Detail: co.Detail, RaceBld: raceEnabled}
	if !got || !co.Done {
		// crashed (fatal error, unrecovered panic in another goroutine, SIGSEGV in cgo) or killed
		if !sum.Timeout {
			sum.Panics++
		}
		tail := stderr.String()
		seenC := map[string]bool{}
		for _, m := range cfuncRe.FindAllStringSubmatch(tail, -1) {
			if !seenC[m[1]] {
				seenC[m[1]] = true
				sum.CrashCgo = append(sum.CrashCgo, m[1])
			}
		}
		sort.Strings(sum.CrashCgo)
		if m := crashRe.FindString(tail); m != "" {
			sum.CrashKnd = m
		}
		// start at the line that names the crash
		for _, mark := range []string{"fatal error:", "panic:", "SIGSEGV", "unexpected signal", "WATCHDOG", "SIGABRT", "signal "} {
			if i := strings.Index(tail, mark); i >= 0 {
				tail = tail[i:]
				break
			}
		}
		lim := 5000
		if v, err := strconv.Atoi(os.Getenv("C14_DETAIL_MAX")); err == nil && v > lim {
			lim = v
		}
		if len(tail) > lim {
			tail = tail[:lim-1000] + "\n...\n" + tail[len(tail)-1000:]
		}
		sum.Detail = fmt.Sprintf("child ended abnormally (%v): %s", werr, tail)
	}
	return append(res, sum)
}

func mustJSON(v interface{}) string {
	b, err := json.Marshal(v)
	if err != nil {
		panic(err)
	}
	return string(b)
}

func scenarios(a *hlib.Args) []Scenario {
	ms := 1200
	workers := 8
	if a.Tier == "thorough" {
		ms = 45000
		workers = 16
	}
	if a.N > 0 && a.N < 100 {
		ms = ms * a.N / 10 // -n scales the duration (10 = nominal)
	}
	all := []Scenario{
		{Name: "rdb2-mixed", Backend: "rdb2", Workers: workers, Millis: ms, FullPct: 25, Cache: true, Update: true},
		{Name: "rdb1-mixed", Backend: "rdb1", Workers: workers, Millis: ms, FullPct: 25, Windows: true, Logger: "text"},
		{Name: "cdb-mixed", Backend: "cdb", Workers: workers, Millis: ms, FullPct: 60, Windows: true, Cache: true, Logger: "dnstap"},
		{Name: "rdb2-timeouts", Backend: "rdb2", Workers: workers, Millis: ms, FullPct: 20, TimeoutUs: 300},
		{Name: "cdb-watcher", Backend: "cdb", Workers: workers / 2, Millis: ms, FullPct: 50, Watcher: true},
		{Name: "rdb2-watcher", Backend: "rdb2", Workers: workers / 2, Millis: ms, FullPct: 30, Watcher: true, Windows: true},
	}
	// focus=<owner type or field>[,...]: only the scenarios that exercise it, for longer
	focus := ""
	for _, kv := range strings.Split(a.Extra, ";") {
		if strings.HasPrefix(kv, "focus=") {
			focus = strings.TrimPrefix(kv, "focus=")
		}
	}
	if focus != "" {
		want := map[string]bool{}
		for _, f := range strings.Split(focus, ",") {
			switch {
			case strings.HasPrefix(f, "rdb.IteratorPool"), strings.HasPrefix(f, "rdb.RDB"), strings.HasPrefix(f, "db.rdbdriver"), strings.HasPrefix(f, "rdb.Context"):
				want["rdb2-mixed"], want["rdb2-timeouts"], want["rdb1-mixed"] = true, true, true
			case strings.HasPrefix(f, "db.cdbdriver"):
				want["cdb-mixed"] = true
			case strings.HasPrefix(f, "metrics."):
				want["cdb-mixed"], want["rdb1-mixed"] = true, true
			case strings.HasPrefix(f, "dnsserver.FBDNSDB.dbConfig"), strings.HasPrefix(f, "dnsserver.FBDNSDB.ReloadChan"), strings.HasPrefix(f, "dnsserver.FBDNSDB.done"):
				want["cdb-watcher"], want["rdb2-watcher"] = true, true
			case strings.HasPrefix(f, "db.DB.Reload"):
				want["rdb2-timeouts"], want["cdb-mixed"] = true, true
			default: // FBDNSDB.dnsdb, db.DB.*, DataReader ...
				want["cdb-mixed"], want["rdb2-mixed"], want["rdb2-timeouts"], want["cdb-watcher"] = true, true, true, true
			}
		}
		var sel []Scenario
		for _, s := range all {
			if want[s.Name] {
				s.Millis = s.Millis * 2
				sel = append(sel, s)
			}
		}
		all = sel
	}
	for i := range all {
		all[i].Seed = a.Seed + uint64(i)
	}
	return all
}

func copyTree(src, dst string, p *paths, mine *paths) error {
	if err := os.MkdirAll(dst, 0o755); err != nil {
		return err
	}
	mv := func(old string) (string, error) {
		rel, err := filepath.Rel(src, old)
		if err != nil {
			return "", err
		}
		top := strings.Split(rel, string(filepath.Separator))[0]
		if _, err := os.Stat(filepath.Join(dst, top)); err != nil {
			if out, err := exec.Command("cp", "-a", filepath.Join(src, top), filepath.Join(dst, top)).CombinedOutput(); err != nil {
				return "", fmt.Errorf("cp: %v: %s", err, out)
			}
		}
		return filepath.Join(dst, rel), nil
	}
	var err error
	for g := 0; g < 2; g++ {
		if mine.Cdb[g], err = mv(p.Cdb[g]); err != nil {
			return err
		}
		if mine.Rdb1[g], err = mv(p.Rdb1[g]); err != nil {
			return err
		}
		if mine.Rdb2[g], err = mv(p.Rdb2[g]); err != nil {
			return err
		}
	}
	return nil
}

func main() {
	if len(os.Args) == 4 && os.Args[1] == "-child" {
		var sc Scenario
		if err := json.Unmarshal([]byte(os.Args[2]), &sc); err != nil {
			fmt.Fprintln(os.Stderr, "bad scenario:", err)
			os.Exit(2)
		}
		runChild(sc, os.Args[3])
		return
	}
	hlib.Main(func(a *hlib.Args, e *hlib.Emitter) error {
		scratch := a.Scratch
		if scratch == "" {
			d, err := os.MkdirTemp("/var/tmp", "c14-")
			if err != nil {
				return err
			}
			defer os.RemoveAll(d)
			scratch = d
		}
		dir := filepath.Join(scratch, "c14-data")
		os.RemoveAll(dir)
		if err := os.MkdirAll(filepath.Join(dir, "base"), 0o755); err != nil {
			return err
		}
		defer os.RemoveAll(dir)
		os.Setenv("TMPDIR", scratch)
		t0 := time.Now()
		p, err := buildData(filepath.Join(dir, "base"))
		if err != nil {
			return err
		}
		fmt.Fprintf(os.Stderr, "c14: databases built in %.1fs\n", time.Since(t0).Seconds())
		var scs []Scenario
		if a.Replay != "" {
			rs, err := hlib.ReadReplay(a.Replay)
			if err != nil {
				return err
			}
			seen := map[string]bool{}
			for _, r := range rs {
				var sc Scenario
				if raw, ok := r["scenario"]; ok && json.Unmarshal(raw, &sc) == nil && !seen[mustJSON(sc)] {
					seen[mustJSON(sc)] = true
					scs = append(scs, sc)
				}
			}
		} else {
			scs = scenarios(a)
		}
		// scenarios run in parallel child processes, each on a private copy of the databases
		results := make([][]Case, len(scs))
		var wg sync.WaitGroup
		sem := make(chan struct{}, 8)
		for i, sc := range scs {
			wg.Add(1)
			go func(i int, sc Scenario) {
				defer wg.Done()
				sem <- struct{}{}
				defer func() { <-sem }()
				mine := *p
				if err := copyTree(filepath.Join(dir, "base"), filepath.Join(dir, fmt.Sprintf("s%d", i)), p, &mine); err != nil {
					results[i] = []Case{{Class: "scenario", Scenario: sc, Panics: 1, Detail: "copy: " + err.Error(), RaceBld: raceEnabled}}
					return
				}
				t1 := time.Now()
				results[i] = runScenario(sc, mustJSON(&mine), scratch, i)
				fmt.Fprintf(os.Stderr, "c14: scenario %s took %.1fs\n", sc.Name, time.Since(t1).Seconds())
			}(i, sc)
		}
		wg.Wait()
		for _, rs := range results {
			for _, c := range rs {
				e.Emit(c)
			}
		}
		return nil
	})
}
