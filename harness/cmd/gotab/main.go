// gotab: translator from the Go sources of dnsrocks to the Coq table of shared
// accesses used by property C14 (coq/Gen/Access.v).
//
// Standard library only (go/parser, go/ast, go/token, go/build/constraint).  No
// type checker: types of expressions are recovered syntactically from struct
// declarations, parameter / receiver / result types and simple local
// assignments, which is enough because unexported fields are only reachable
// inside their own package.
//
// For every function, method and go-closure of the packages listed in `pkgDirs`
// it emits
//   - the reads and writes of fields of the tracked struct types (and of local
//     variables of a function that are captured by a goroutine started in it),
//     each with the mutexes of the SAME object that are held at that statement
//     (Lock/RLock, explicit Unlock, defer Unlock; locks assumed at entry for a
//     method documented "caller must hold ..."), whether the object is fresh
//     (allocated in this function and not yet published), which channels have
//     been received from on every path to the statement and which channels are
//     closed / sent to unconditionally after it;
//   - the reads and writes of PACKAGE-LEVEL variables of those packages (owner = the
//     package, global = true): the declaration and func init are writes by <pkg>.init,
//     every other write / read is recorded with the package-level mutexes held;
//   - the call sites of "caller must hold" methods with the locks held there;
//   - the list of all methods of tracked types and of all functions that have
//     at least one access (every one of them needs a role in Model/Locks.v).
//
// Output is deterministic (sorted, de-duplicated).
package main

import (
	"bytes"
	"flag"
	"fmt"
	"go/ast"
	"go/build/constraint"
	"go/parser"
	"go/printer"
	"go/token"
	"os"
	"path/filepath"
	"regexp"
	"sort"
	"strings"
)

const modPath = "github.com/facebookincubator/dns/dnsrocks"

// package directories (relative to <repo>/dnsrocks) and the short names used in the table
// (the tracked struct types live in the first four; the others are scanned for accesses to
// package-level variables: they are reachable from request handling or from the server's
// own goroutines)
var pkgDirs = []string{"dnsserver", "db", "dnsdata/rdb", "metrics", "logger", "fbserver", "whoami",
	"dnsdata", "dnsdata/svcb", "dnsserver/stats"}

var corePkgs = map[string]bool{"dnsserver": true, "db": true, "dnsdata/rdb": true, "metrics": true}

// tracked receiver types, by short package name
var trackedTypes = map[string]bool{
	"dnsserver.FBDNSDB":     true,
	"db.DB":                 true,
	"db.DataReader":         true,
	"db.sortedDataReader":   true,
	"db.cdbdriver":          true,
	"db.rdbdriver":          true,
	"db.lockedSource":       true,
	"rdb.RDB":               true,
	"rdb.IteratorPool":      true,
	"rdb.Context":           true,
	"metrics.slidingWindow": true,
	"metrics.Stats":         true,
}

type field struct {
	name     string
	typ      ast.Expr
	embedded bool
}

type structInfo struct {
	pkg    *pkgInfo
	name   string
	file   *ast.File
	fields []field
}

func (s *structInfo) qual() string { return s.pkg.name + "." + s.name }

type pkgInfo struct {
	name    string
	dir     string // relative
	files   []*ast.File
	fnames  map[*ast.File]string // relative file name
	structs map[string]*structInfo
	funcs   map[string]*ast.FuncDecl
	methods map[string]map[string]*ast.FuncDecl
	fileOf  map[*ast.FuncDecl]*ast.File
	vars    map[string]*varInfo // package-level variables
}

// varInfo is a package-level variable
type varInfo struct {
	name string
	spec *ast.ValueSpec
	file *ast.File
	t    *typ
}

// typ is a syntactic type with the file (imports) and package it is written in
type typ struct {
	expr ast.Expr
	pkg  *pkgInfo
	file *ast.File
}

var (
	fset = token.NewFileSet()
	pkgs = map[string]*pkgInfo{} // by relative dir
)

// ---------------------------------------------------------------- loading

func buildOK(src []byte) bool {
	// evaluates a //go:build line for the production configuration (no verif tag)
	for _, line := range strings.Split(string(src), "\n") {
		t := strings.TrimSpace(line)
		if strings.HasPrefix(t, "package ") {
			break
		}
		if constraint.IsGoBuild(t) {
			x, err := constraint.Parse(t)
			if err != nil {
				return true
			}
			return x.Eval(func(tag string) bool {
				switch tag {
				case "linux", "amd64", "cgo", "gc", "unix":
					return true
				}
				return strings.HasPrefix(tag, "go1.")
			})
		}
	}
	return true
}

func load(root string) error {
	for _, d := range pkgDirs {
		dir := filepath.Join(root, "dnsrocks", d)
		ents, err := os.ReadDir(dir)
		if err != nil {
			return err
		}
		p := &pkgInfo{dir: d, fnames: map[*ast.File]string{}, structs: map[string]*structInfo{},
			funcs: map[string]*ast.FuncDecl{}, methods: map[string]map[string]*ast.FuncDecl{}, fileOf: map[*ast.FuncDecl]*ast.File{}, vars: map[string]*varInfo{}}
		var names []string
		for _, e := range ents {
			n := e.Name()
			if e.IsDir() || !strings.HasSuffix(n, ".go") || strings.HasSuffix(n, "_test.go") {
				continue
			}
			names = append(names, n)
		}
		sort.Strings(names)
		for _, n := range names {
			src, err := os.ReadFile(filepath.Join(dir, n))
			if err != nil {
				return err
			}
			if !buildOK(src) {
				continue
			}
			f, err := parser.ParseFile(fset, filepath.Join(dir, n), src, parser.ParseComments)
			if err != nil {
				return fmt.Errorf("parse %s: %v", n, err)
			}
			if strings.HasSuffix(f.Name.Name, "_test") {
				continue
			}
			p.name = f.Name.Name
			p.files = append(p.files, f)
			p.fnames[f] = d + "/" + n
		}
		for _, f := range p.files {
			for _, decl := range f.Decls {
				switch x := decl.(type) {
				case *ast.GenDecl:
					for _, sp := range x.Specs {
						if vs, ok := sp.(*ast.ValueSpec); ok && x.Tok == token.VAR {
							for i, nm := range vs.Names {
								if nm.Name == "_" {
									continue
								}
								vi := &varInfo{name: nm.Name, spec: vs, file: f}
								if vs.Type != nil {
									vi.t = &typ{vs.Type, p, f}
								} else if i < len(vs.Values) {
									vi.t = staticTypeOf(vs.Values[i], p, f)
								}
								p.vars[nm.Name] = vi
							}
							continue
						}
						ts, ok := sp.(*ast.TypeSpec)
						if !ok {
							continue
						}
						st, ok := ts.Type.(*ast.StructType)
						if !ok {
							continue
						}
						si := &structInfo{pkg: p, name: ts.Name.Name, file: f}
						for _, fl := range st.Fields.List {
							if len(fl.Names) == 0 {
								si.fields = append(si.fields, field{name: typeBaseName(fl.Type), typ: fl.Type, embedded: true})
							}
							for _, nm := range fl.Names {
								si.fields = append(si.fields, field{name: nm.Name, typ: fl.Type})
							}
						}
						p.structs[si.name] = si
					}
				case *ast.FuncDecl:
					p.fileOf[x] = f
					if x.Recv == nil {
						p.funcs[x.Name.Name] = x
					} else {
						tn := typeBaseName(x.Recv.List[0].Type)
						if p.methods[tn] == nil {
							p.methods[tn] = map[string]*ast.FuncDecl{}
						}
						p.methods[tn][x.Name.Name] = x
					}
				}
			}
		}
		pkgs[d] = p
	}
	// types of package-level variables initialised by a call, and which *rand.Rand variables
	// draw from a mutex-protected source
	for _, d := range pkgDirs {
		p := pkgs[d]
		for _, v := range p.vars {
			for i, nm := range v.spec.Names {
				if nm.Name != v.name || i >= len(v.spec.Values) {
					continue
				}
				call, ok := v.spec.Values[i].(*ast.CallExpr)
				if !ok {
					continue
				}
				if isRandNew(call, v.file) {
					if v.t == nil {
						v.t = randType(call, v.file, p)
					}
					if lockedSourceArg(call, p, v.file) {
						lockedGlobal[p.name+"."+v.name] = true
					}
					continue
				}
				if fd, fp := calledFunc(call, p, v.file); fd != nil {
					if v.t == nil {
						v.t = funcResult(fd, fp, 0)
					}
					// func F() *rand.Rand { return rand.New(&lockedSource{...}) }
					ast.Inspect(fd.Body, func(n ast.Node) bool {
						if rs, ok := n.(*ast.ReturnStmt); ok && len(rs.Results) == 1 {
							if c2, ok := rs.Results[0].(*ast.CallExpr); ok && isRandNew(c2, fp.fileOf[fd]) && lockedSourceArg(c2, fp, fp.fileOf[fd]) {
								lockedGlobal[p.name+"."+v.name] = true
							}
						}
						return true
					})
				}
			}
		}
	}
	return nil
}

// lockedGlobal: package-level *rand.Rand variables whose source is a struct of a scanned package
// with a sync.Mutex field (db.lockedSource): rand.New(&lockedSource{...}) directly or through a
// constructor function that returns exactly that.  Their methods are goroutine-safe.
var lockedGlobal = map[string]bool{}

func isRandNew(call *ast.CallExpr, f *ast.File) bool {
	sel, ok := call.Fun.(*ast.SelectorExpr)
	if !ok || sel.Sel.Name != "New" || len(call.Args) != 1 {
		return false
	}
	id, ok := sel.X.(*ast.Ident)
	return ok && importPathOf(f, id.Name) == "math/rand"
}

func randType(call *ast.CallExpr, f *ast.File, p *pkgInfo) *typ {
	sel := call.Fun.(*ast.SelectorExpr)
	return &typ{&ast.StarExpr{X: &ast.SelectorExpr{X: sel.X, Sel: ast.NewIdent("Rand")}}, p, f}
}

func lockedSourceArg(call *ast.CallExpr, p *pkgInfo, f *ast.File) bool {
	arg := call.Args[0]
	if u, ok := arg.(*ast.UnaryExpr); ok && u.Op == token.AND {
		arg = u.X
	}
	cl, ok := arg.(*ast.CompositeLit)
	if !ok {
		return false
	}
	si, _, _ := resolveNamed(&typ{cl.Type, p, f})
	if si == nil {
		return false
	}
	for i := range si.fields {
		if _, _, sk := resolveNamed(&typ{si.fields[i].typ, si.pkg, si.file}); sk == "Mutex" || sk == "RWMutex" {
			return true
		}
	}
	return false
}

// calledFunc resolves F(...) or alias.F(...) to a function of a scanned package
func calledFunc(call *ast.CallExpr, p *pkgInfo, f *ast.File) (*ast.FuncDecl, *pkgInfo) {
	switch x := call.Fun.(type) {
	case *ast.Ident:
		if fd := p.funcs[x.Name]; fd != nil {
			return fd, p
		}
	case *ast.SelectorExpr:
		if id, ok := x.X.(*ast.Ident); ok {
			ip := importPathOf(f, id.Name)
			if strings.HasPrefix(ip, modPath+"/") {
				if q, ok := pkgs[strings.TrimPrefix(ip, modPath+"/")]; ok {
					if fd := q.funcs[x.Sel.Name]; fd != nil {
						return fd, q
					}
				}
			}
		}
	}
	return nil, nil
}

// mutatingType: types whose methods change the receiver without synchronisation
func mutatingType(t *typ) bool {
	if t == nil {
		return false
	}
	e := t.expr
	for {
		if s, ok := e.(*ast.StarExpr); ok {
			e = s.X
			continue
		}
		break
	}
	sel, ok := e.(*ast.SelectorExpr)
	if !ok {
		return false
	}
	id, ok := sel.X.(*ast.Ident)
	if !ok || t.file == nil {
		return false
	}
	switch importPathOf(t.file, id.Name) + "." + sel.Sel.Name {
	case "math/rand.Rand", "bytes.Buffer", "strings.Builder":
		return true
	}
	return false
}

// staticTypeOf: type of a package-level initialiser, as far as it can be read off the syntax
func staticTypeOf(e ast.Expr, p *pkgInfo, f *ast.File) *typ {
	switch x := e.(type) {
	case *ast.CompositeLit:
		return &typ{x.Type, p, f}
	case *ast.UnaryExpr:
		if x.Op == token.AND {
			if t := staticTypeOf(x.X, p, f); t != nil {
				return &typ{&ast.StarExpr{X: t.expr}, p, f}
			}
		}
	case *ast.CallExpr:
		if id, ok := x.Fun.(*ast.Ident); ok && (id.Name == "make" || id.Name == "new") && len(x.Args) > 0 {
			if id.Name == "new" {
				return &typ{&ast.StarExpr{X: x.Args[0]}, p, f}
			}
			return &typ{x.Args[0], p, f}
		}
	}
	return nil
}

func typeBaseName(e ast.Expr) string {
	switch x := e.(type) {
	case *ast.StarExpr:
		return typeBaseName(x.X)
	case *ast.Ident:
		return x.Name
	case *ast.SelectorExpr:
		return x.Sel.Name
	case *ast.ParenExpr:
		return typeBaseName(x.X)
	case *ast.IndexExpr:
		return typeBaseName(x.X)
	}
	return ""
}

func importPathOf(f *ast.File, alias string) string {
	for _, im := range f.Imports {
		p := strings.Trim(im.Path.Value, "\"")
		name := p[strings.LastIndex(p, "/")+1:]
		if im.Name != nil {
			name = im.Name.Name
		} else if p == modPath+"/dnsdata/rdb" {
			name = "rdb"
		}
		if name == alias {
			return p
		}
	}
	return ""
}

// resolveNamed strips pointers and returns the struct declaration (if the type is
// a struct of one of the loaded packages), whether a pointer was stripped and, for
// types of package sync / sync/atomic, the type name.
func resolveNamed(t *typ) (si *structInfo, ptr bool, syncKind string) {
	if t == nil || t.expr == nil {
		return nil, false, ""
	}
	e := t.expr
	for {
		switch x := e.(type) {
		case *ast.StarExpr:
			ptr = true
			e = x.X
			continue
		case *ast.ParenExpr:
			e = x.X
			continue
		}
		break
	}
	switch x := e.(type) {
	case *ast.Ident:
		if t.pkg != nil {
			if s, ok := t.pkg.structs[x.Name]; ok {
				return s, ptr, ""
			}
		}
	case *ast.SelectorExpr:
		if id, ok := x.X.(*ast.Ident); ok && t.file != nil {
			ip := importPathOf(t.file, id.Name)
			if ip == "sync" || ip == "sync/atomic" {
				return nil, ptr, x.Sel.Name
			}
			if strings.HasPrefix(ip, modPath+"/") {
				if p, ok := pkgs[strings.TrimPrefix(ip, modPath+"/")]; ok {
					if s, ok := p.structs[x.Sel.Name]; ok {
						return s, ptr, ""
					}
				}
			}
		}
	}
	return nil, ptr, ""
}

// lookupField finds a field (also promoted through embedded structs); owner is the
// struct that declares it.
func lookupField(si *structInfo, name string) (*field, *structInfo) {
	for i := range si.fields {
		if si.fields[i].name == name {
			return &si.fields[i], si
		}
	}
	for i := range si.fields {
		if si.fields[i].embedded {
			es, _, _ := resolveNamed(&typ{si.fields[i].typ, si.pkg, si.file})
			if es != nil {
				if f, o := lookupField(es, name); f != nil {
					return f, o
				}
			}
		}
	}
	return nil, nil
}

func lookupMethod(si *structInfo, name string) (*ast.FuncDecl, *structInfo) {
	if m, ok := si.pkg.methods[si.name][name]; ok {
		return m, si
	}
	for i := range si.fields {
		if si.fields[i].embedded {
			es, _, _ := resolveNamed(&typ{si.fields[i].typ, si.pkg, si.file})
			if es != nil {
				if m, o := lookupMethod(es, name); m != nil {
					return m, o
				}
			}
		}
	}
	return nil, nil
}

// ---------------------------------------------------------------- output records

type lockHeld struct {
	name string // e.g. dnsserver.FBDNSDB.reloadMu or db.DB.Reload.m
	base string // expression the lock belongs to ("" for locals)
	excl bool
}

type access struct {
	fn, file     string
	line         int
	owner, field string
	write        bool
	locks        []lockHeld // only locks of the same object (same base expression)
	fresh        bool
	recv         []string // channels received from on every path before the access
	signal       []string // channels closed / sent to unconditionally after the access
	topIdx       int      // index of the enclosing top-level statement of the function body
	bodyID       int
	local        bool // captured local variable
	global       bool // package-level variable (owner = package)
	pos          token.Pos
}

type callRec struct {
	fn, file, callee string
	line             int
	locks            []lockHeld
	required         []lockHeld
}

type syncEvent struct {
	fn, file, ch, op string
	line             int
}

var (
	accesses  []*access
	calls     []callRec
	events    []syncEvent
	funcNames = map[string]bool{}
	notes     []string
)

// ---------------------------------------------------------------- analysis state

type flow struct {
	held       []lockHeld
	recvd      map[string]bool
	terminated bool
}

func (f *flow) clone() *flow {
	n := &flow{held: append([]lockHeld(nil), f.held...), recvd: map[string]bool{}, terminated: f.terminated}
	for k := range f.recvd {
		n.recvd[k] = true
	}
	return n
}

func mergeFlows(fs ...*flow) *flow {
	var live []*flow
	for _, f := range fs {
		if !f.terminated {
			live = append(live, f)
		}
	}
	if len(live) == 0 {
		r := fs[0].clone()
		r.terminated = true
		return r
	}
	r := live[0].clone()
	for _, o := range live[1:] {
		var h []lockHeld
		for _, l := range r.held {
			for _, m := range o.held {
				if l.name == m.name && l.base == m.base {
					if !m.excl {
						l.excl = false
					}
					h = append(h, l)
					break
				}
			}
		}
		r.held = h
		for k := range r.recvd {
			if !o.recvd[k] {
				delete(r.recvd, k)
			}
		}
	}
	return r
}

type funcCtx struct {
	pkg      *pkgInfo
	file     *ast.File
	decl     *ast.FuncDecl
	name     string // function name used in the table (go-closures get their own)
	topName  string // name of the enclosing top-level function
	objTypes map[*ast.Object]*typ
	freshObj map[*ast.Object]bool
	captured map[*ast.Object]bool // locals of the top-level function captured by a go-closure
	flow     *flow
	topIdx   int
	bodyID   int
	inDefer  bool
	litCount *int
}

var bodyCounter int

type bodyInfo struct {
	stmts []ast.Stmt
	fn    string
}

var bodies = map[int]*bodyInfo{}

func exprStr(e ast.Expr) string {
	var b bytes.Buffer
	printer.Fprint(&b, fset, e)
	return b.String()
}

func (c *funcCtx) relFile() string { return c.pkg.fnames[c.file] }

func (c *funcCtx) setType(id *ast.Ident, t *typ) {
	if id == nil || id.Name == "_" || id.Obj == nil {
		return
	}
	if t != nil {
		c.objTypes[id.Obj] = t
	}
}

func (c *funcCtx) mkTyp(e ast.Expr) *typ {
	if e == nil {
		return nil
	}
	return &typ{e, c.pkg, c.file}
}

func funcResult(fd *ast.FuncDecl, p *pkgInfo, i int) *typ {
	if fd == nil || fd.Type.Results == nil {
		return nil
	}
	k := 0
	for _, r := range fd.Type.Results.List {
		n := len(r.Names)
		if n == 0 {
			n = 1
		}
		for j := 0; j < n; j++ {
			if k == i {
				return &typ{r.Type, p, p.fileOf[fd]}
			}
			k++
		}
	}
	return nil
}

// typeOfN: type of the i-th value of expression e (i > 0 only for calls / comma-ok forms)
func (c *funcCtx) typeOfN(e ast.Expr, i int) *typ {
	switch x := e.(type) {
	case *ast.CallExpr:
		switch f := x.Fun.(type) {
		case *ast.Ident:
			if f.Obj == nil && (f.Name == "new" || f.Name == "make") && len(x.Args) > 0 && i == 0 {
				return c.mkTyp(x.Args[0])
			}
			if fd, ok := c.pkg.funcs[f.Name]; ok && f.Obj != nil && f.Obj.Kind == ast.Fun {
				return funcResult(fd, c.pkg, i)
			}
			if fd, ok := c.pkg.funcs[f.Name]; ok && f.Obj == nil {
				// function declared in another file of the package
				return funcResult(fd, c.pkg, i)
			}
		case *ast.SelectorExpr:
			if id, ok := f.X.(*ast.Ident); ok && id.Obj == nil {
				ip := importPathOf(c.file, id.Name)
				if strings.HasPrefix(ip, modPath+"/") {
					if p, ok := pkgs[strings.TrimPrefix(ip, modPath+"/")]; ok {
						if fd, ok := p.funcs[f.Sel.Name]; ok {
							return funcResult(fd, p, i)
						}
					}
					return nil
				}
			}
			si, _, _ := resolveNamed(c.typeOf(f.X))
			if si != nil {
				if m, o := lookupMethod(si, f.Sel.Name); m != nil {
					return funcResult(m, o.pkg, i)
				}
			}
		}
		return nil
	}
	if i == 0 {
		return c.typeOf(e)
	}
	return nil
}

func (c *funcCtx) typeOf(e ast.Expr) *typ {
	switch x := e.(type) {
	case *ast.Ident:
		if v := c.globalOf(x); v != nil {
			return v.t
		}
		if x.Obj != nil {
			return c.objTypes[x.Obj]
		}
	case *ast.ParenExpr:
		return c.typeOf(x.X)
	case *ast.StarExpr:
		t := c.typeOf(x.X)
		if t != nil {
			if s, ok := t.expr.(*ast.StarExpr); ok {
				return &typ{s.X, t.pkg, t.file}
			}
		}
		return t
	case *ast.UnaryExpr:
		if x.Op == token.AND {
			t := c.typeOf(x.X)
			if t != nil {
				return &typ{&ast.StarExpr{X: t.expr}, t.pkg, t.file}
			}
			return nil
		}
		if x.Op == token.ARROW {
			t := c.typeOf(x.X)
			if t != nil {
				if ch, ok := t.expr.(*ast.ChanType); ok {
					return &typ{ch.Value, t.pkg, t.file}
				}
			}
		}
	case *ast.CompositeLit:
		return c.mkTyp(x.Type)
	case *ast.CallExpr:
		return c.typeOfN(e, 0)
	case *ast.SelectorExpr:
		if _, v := c.foreignGlobal(x); v != nil {
			return v.t
		}
		si, _, _ := resolveNamed(c.typeOf(x.X))
		if si != nil {
			if f, o := lookupField(si, x.Sel.Name); f != nil {
				return &typ{f.typ, o.pkg, o.file}
			}
		}
	case *ast.IndexExpr:
		t := c.typeOf(x.X)
		if t != nil {
			switch y := t.expr.(type) {
			case *ast.MapType:
				return &typ{y.Value, t.pkg, t.file}
			case *ast.ArrayType:
				return &typ{y.Elt, t.pkg, t.file}
			}
		}
	case *ast.TypeAssertExpr:
		if x.Type != nil {
			return c.mkTyp(x.Type)
		}
	}
	return nil
}

// ---------------------------------------------------------------- locations

type loc struct {
	owner, path, base string
	fresh             bool
	t                 *typ
	local             bool
	global            bool
}

const globalBase = "<global>"

// globalOf: is this identifier a package-level variable of the current package?
func (c *funcCtx) globalOf(x *ast.Ident) *varInfo {
	v := c.pkg.vars[x.Name]
	if v == nil {
		return nil
	}
	if x.Obj == nil || x.Obj.Decl == v.spec {
		return v
	}
	return nil
}

// foreignGlobal: alias.Name where alias is an imported package that is loaded and Name one of
// its package-level variables
func (c *funcCtx) foreignGlobal(x *ast.SelectorExpr) (*pkgInfo, *varInfo) {
	id, ok := x.X.(*ast.Ident)
	if !ok || id.Obj != nil || c.pkg.vars[id.Name] != nil {
		return nil, nil
	}
	ip := importPathOf(c.file, id.Name)
	if !strings.HasPrefix(ip, modPath+"/") {
		return nil, nil
	}
	p, ok := pkgs[strings.TrimPrefix(ip, modPath+"/")]
	if !ok {
		return nil, nil
	}
	if v := p.vars[x.Sel.Name]; v != nil {
		return p, v
	}
	return nil, nil
}

func (c *funcCtx) rootFresh(e ast.Expr) bool {
	for {
		switch x := e.(type) {
		case *ast.Ident:
			return x.Obj != nil && c.freshObj[x.Obj]
		case *ast.SelectorExpr:
			// a field reached through a pointer field is another object
			si, _, _ := resolveNamed(c.typeOf(x.X))
			if si != nil {
				if f, o := lookupField(si, x.Sel.Name); f != nil {
					if _, ptr, _ := resolveNamed(&typ{f.typ, o.pkg, o.file}); ptr {
						return false
					}
				}
			}
			e = x.X
		case *ast.ParenExpr:
			e = x.X
		case *ast.StarExpr:
			e = x.X
		case *ast.CompositeLit:
			return true
		case *ast.UnaryExpr:
			e = x.X
		default:
			return false
		}
	}
}

func (c *funcCtx) locOf(e ast.Expr) *loc {
	switch x := e.(type) {
	case *ast.ParenExpr:
		return c.locOf(x.X)
	case *ast.Ident:
		if v := c.globalOf(x); v != nil {
			return &loc{owner: c.pkg.name, path: x.Name, base: globalBase, t: v.t, global: true}
		}
		if x.Obj != nil && c.captured[x.Obj] {
			return &loc{owner: c.topName, path: x.Name, base: "", t: c.objTypes[x.Obj], local: true}
		}
	case *ast.SelectorExpr:
		if p, v := c.foreignGlobal(x); v != nil {
			return &loc{owner: p.name, path: x.Sel.Name, base: globalBase, t: v.t, global: true}
		}
		tx := c.typeOf(x.X)
		si, _, _ := resolveNamed(tx)
		if si == nil {
			return nil
		}
		f, o := lookupField(si, x.Sel.Name)
		if f == nil {
			return nil
		}
		ft := &typ{f.typ, o.pkg, o.file}
		if trackedTypes[o.qual()] {
			return &loc{owner: o.qual(), path: x.Sel.Name, base: exprStr(x.X), fresh: c.rootFresh(x.X), t: ft}
		}
		// a field of a value struct embedded in a tracked location
		if lx := c.locOf(x.X); lx != nil {
			if _, ptr, _ := resolveNamed(lx.t); !ptr {
				return &loc{owner: lx.owner, path: lx.path + "." + x.Sel.Name, base: lx.base, fresh: lx.fresh, t: ft, local: lx.local, global: lx.global}
			}
		}
	}
	return nil
}

// leafPaths expands a location whose type is a value struct of a loaded package
// into its leaf fields; sync-typed leaves are dropped.
func leafPaths(l *loc) []string {
	si, ptr, sk := resolveNamed(l.t)
	if sk != "" && !ptr {
		return nil
	}
	if si == nil || ptr {
		return []string{l.path}
	}
	var res []string
	for i := range si.fields {
		sub := &loc{owner: l.owner, path: l.path + "." + si.fields[i].name, t: &typ{si.fields[i].typ, si.pkg, si.file}}
		res = append(res, leafPaths(sub)...)
	}
	return res
}

func (c *funcCtx) record(l *loc, write bool, pos token.Pos) {
	if l == nil {
		return
	}
	var held []lockHeld
	for _, h := range c.flow.held {
		if h.base == l.base {
			held = append(held, h)
		}
	}
	var rc []string
	for k := range c.flow.recvd {
		rc = append(rc, k)
	}
	sort.Strings(rc)
	for _, p := range leafPaths(l) {
		ti := c.topIdx
		if c.inDefer {
			ti = 1 << 30
		}
		accesses = append(accesses, &access{fn: c.name, file: c.relFile(), line: fset.Position(pos).Line,
			owner: l.owner, field: p, write: write, locks: held, fresh: l.fresh, recv: rc,
			topIdx: ti, bodyID: c.bodyID, local: l.local, global: l.global, pos: pos})
		if !l.global {
			funcNames[c.name] = true
		}
	}
}

// lockOf: is e a mutex (value or pointer)?  returns its name and base
func (c *funcCtx) lockOf(e ast.Expr) (name, base string, ok bool, ptrLoc *loc) {
	t := c.typeOf(e)
	_, ptr, sk := resolveNamed(t)
	if sk != "Mutex" && sk != "RWMutex" {
		return "", "", false, nil
	}
	switch x := e.(type) {
	case *ast.Ident:
		if c.globalOf(x) != nil {
			return c.pkg.name + "." + x.Name, globalBase, true, nil
		}
		return c.topName + "." + x.Name, "", true, nil
	case *ast.SelectorExpr:
		if p, v := c.foreignGlobal(x); v != nil {
			return p.name + "." + v.name, globalBase, true, nil
		}
		si, _, _ := resolveNamed(c.typeOf(x.X))
		if si == nil {
			return "", "", false, nil
		}
		_, o := lookupField(si, x.Sel.Name)
		if o == nil {
			return "", "", false, nil
		}
		var pl *loc
		if ptr {
			pl = c.locOf(e)
		}
		return o.qual() + "." + x.Sel.Name, exprStr(x.X), true, pl
	}
	return "", "", false, nil
}

func chanName(c *funcCtx, e ast.Expr) string {
	if l := c.locOf(e); l != nil {
		return l.owner + "." + l.path
	}
	switch x := e.(type) {
	case *ast.Ident:
		return c.topName + "." + x.Name
	case *ast.ParenExpr:
		return chanName(c, x.X)
	}
	return c.topName + ":" + exprStr(e)
}

func (c *funcCtx) event(ch, op string, pos token.Pos) {
	events = append(events, syncEvent{fn: c.name, file: c.relFile(), ch: ch, op: op, line: fset.Position(pos).Line})
	if op == "recv" {
		c.flow.recvd[ch] = true
	}
}

// ---------------------------------------------------------------- expressions

const (
	mRead = iota
	mWrite
)

func (c *funcCtx) visitExpr(e ast.Expr, mode int) {
	switch x := e.(type) {
	case nil:
		return
	case *ast.Ident:
		if l := c.locOf(x); l != nil {
			c.record(l, mode == mWrite, x.Pos())
		}
	case *ast.ParenExpr:
		c.visitExpr(x.X, mode)
	case *ast.SelectorExpr:
		if l := c.locOf(x); l != nil {
			_, ptr, sk := resolveNamed(l.t)
			if !(sk != "" && !ptr) {
				c.record(l, mode == mWrite, x.Sel.Pos())
			}
			// descend below the part that belongs to this location
			inner := x.X
			for {
				if s, ok := inner.(*ast.SelectorExpr); ok {
					if li := c.locOf(s); li != nil && li.owner == l.owner && li.base == l.base && strings.HasPrefix(l.path, li.path+".") {
						inner = s.X
						continue
					}
				}
				break
			}
			if id, ok := inner.(*ast.Ident); ok {
				if li := c.locOf(id); li != nil && li.owner == l.owner && li.base == l.base && strings.HasPrefix(l.path, li.path+".") {
					return // the identifier is the root of this very location
				}
			}
			c.visitExpr(inner, mRead)
			return
		}
		c.visitExpr(x.X, mRead)
	case *ast.IndexExpr:
		c.visitExpr(x.X, mode)
		c.visitExpr(x.Index, mRead)
	case *ast.SliceExpr:
		c.visitExpr(x.X, mode)
		c.visitExpr(x.Low, mRead)
		c.visitExpr(x.High, mRead)
		c.visitExpr(x.Max, mRead)
	case *ast.StarExpr:
		c.visitExpr(x.X, mRead)
	case *ast.UnaryExpr:
		switch x.Op {
		case token.ARROW:
			c.visitExpr(x.X, mRead)
			c.event(chanName(c, x.X), "recv", x.Pos())
		case token.AND:
			if _, ok := x.X.(*ast.CompositeLit); ok {
				c.visitExpr(x.X, mRead)
			} else if l := c.locOf(x.X); l != nil && l.global {
				// the address of a package-level variable is taken (typically to pass a read-only
				// argument): counted as a read, writes through the pointer are not followed
				notes = append(notes, fmt.Sprintf("%s: address of package-level variable %s.%s taken at %s:%d (counted as a read)",
					c.name, l.owner, l.path, c.relFile(), fset.Position(x.Pos()).Line))
				c.visitExpr(x.X, mRead)
			} else if l != nil {
				// the address of a tracked field escapes: count as a write
				c.visitExpr(x.X, mWrite)
			} else {
				c.visitExpr(x.X, mRead)
			}
		default:
			c.visitExpr(x.X, mRead)
		}
	case *ast.BinaryExpr:
		c.visitExpr(x.X, mRead)
		c.visitExpr(x.Y, mRead)
	case *ast.KeyValueExpr:
		c.visitExpr(x.Key, mRead)
		c.visitExpr(x.Value, mRead)
	case *ast.TypeAssertExpr:
		c.visitExpr(x.X, mRead)
	case *ast.CompositeLit:
		c.visitComposite(x)
	case *ast.FuncLit:
		c.visitClosure(x, false, false)
	case *ast.CallExpr:
		c.visitCall(x)
	}
}

func (c *funcCtx) visitComposite(x *ast.CompositeLit) {
	si, _, _ := resolveNamed(c.mkTyp(x.Type))
	if si != nil && trackedTypes[si.qual()] {
		// a fresh object: every field is initialised here
		for i := range si.fields {
			l := &loc{owner: si.qual(), path: si.fields[i].name, base: "<new>", fresh: true, t: &typ{si.fields[i].typ, si.pkg, si.file}}
			if si.fields[i].embedded {
				es, _, _ := resolveNamed(l.t)
				if es != nil && trackedTypes[es.qual()] {
					for j := range es.fields {
						c.record(&loc{owner: es.qual(), path: es.fields[j].name, base: "<new>", fresh: true, t: &typ{es.fields[j].typ, es.pkg, es.file}}, true, x.Pos())
					}
					continue
				}
			}
			_, ptr, sk := resolveNamed(l.t)
			if sk != "" && !ptr {
				continue
			}
			c.record(l, true, x.Pos())
		}
	}
	for _, el := range x.Elts {
		if kv, ok := el.(*ast.KeyValueExpr); ok {
			c.visitExpr(kv.Value, mRead)
		} else {
			c.visitExpr(el, mRead)
		}
	}
}

func (c *funcCtx) addLock(name, base string, excl bool) {
	c.flow.held = append(c.flow.held, lockHeld{name, base, excl})
}

func (c *funcCtx) dropLock(name, base string) {
	for i := len(c.flow.held) - 1; i >= 0; i-- {
		if c.flow.held[i].name == name && c.flow.held[i].base == base {
			c.flow.held = append(c.flow.held[:i:i], c.flow.held[i+1:]...)
			return
		}
	}
	notes = append(notes, fmt.Sprintf("%s: unlock of %s (%s) that is not held", c.name, name, base))
}

var mustHoldRe = regexp.MustCompile(`(?is)caller\s+must\s+hold\s+(.*)`)

// entryLocks: locks a method documents as held by its caller
func entryLocks(fd *ast.FuncDecl, p *pkgInfo) []lockHeld {
	if fd.Doc == nil || fd.Recv == nil || len(fd.Recv.List[0].Names) == 0 {
		return nil
	}
	m := mustHoldRe.FindStringSubmatch(fd.Doc.Text())
	if m == nil {
		return nil
	}
	si := p.structs[typeBaseName(fd.Recv.List[0].Type)]
	if si == nil {
		return nil
	}
	var mus []string
	for i := range si.fields {
		_, _, sk := resolveNamed(&typ{si.fields[i].typ, si.pkg, si.file})
		if sk == "Mutex" || sk == "RWMutex" {
			mus = append(mus, si.fields[i].name)
		}
	}
	words := regexp.MustCompile(`[A-Za-z_][A-Za-z0-9_]*`).FindAllString(m[1], -1)
	chosen := ""
	for _, w := range words {
		for _, mu := range mus {
			if w == mu && chosen == "" {
				chosen = mu
			}
		}
	}
	if chosen == "" && len(mus) == 1 {
		chosen = mus[0]
	}
	if chosen == "" {
		return nil
	}
	low := strings.ToLower(m[1])
	excl := !(strings.Contains(low, "read lock") || strings.Contains(low, "rlock") || strings.Contains(low, "for reading"))
	return []lockHeld{{name: si.qual() + "." + chosen, base: fd.Recv.List[0].Names[0].Name, excl: excl}}
}

func (c *funcCtx) visitCall(x *ast.CallExpr) {
	// builtins
	if id, ok := x.Fun.(*ast.Ident); ok && id.Obj == nil {
		switch id.Name {
		case "close":
			if len(x.Args) == 1 {
				c.visitExpr(x.Args[0], mRead)
				c.event(chanName(c, x.Args[0]), "close", x.Pos())
				return
			}
		case "delete":
			if len(x.Args) == 2 {
				c.visitExpr(x.Args[0], mWrite)
				c.visitExpr(x.Args[1], mRead)
				return
			}
		case "copy":
			if len(x.Args) == 2 {
				c.visitExpr(x.Args[0], mWrite)
				c.visitExpr(x.Args[1], mRead)
				return
			}
		case "new", "make":
			for _, a := range x.Args[1:] {
				c.visitExpr(a, mRead)
			}
			return
		}
	}
	if sel, ok := x.Fun.(*ast.SelectorExpr); ok {
		// mutex operations
		if name, base, ok, pl := c.lockOf(sel.X); ok {
			if pl != nil {
				c.record(pl, false, sel.X.Pos())
			}
			c.visitLockBase(sel.X)
			switch sel.Sel.Name {
			case "Lock":
				c.addLock(name, base, true)
			case "RLock":
				c.addLock(name, base, false)
			case "Unlock", "RUnlock":
				c.dropLock(name, base)
			}
			return
		}
		// other sync objects used by value (sync.Pool, WaitGroup, atomics): no field access
		if _, ptr, sk := resolveNamed(c.typeOf(sel.X)); sk != "" && !ptr {
			c.visitLockBase(sel.X)
			for _, a := range x.Args {
				c.visitExpr(a, mRead)
			}
			return
		}
		// method of a tracked type that requires locks held by its caller
		if si, _, _ := resolveNamed(c.typeOf(sel.X)); si != nil {
			if m, o := lookupMethod(si, sel.Sel.Name); m != nil {
				if req := entryLocks(m, o.pkg); req != nil {
					base := exprStr(sel.X)
					var held []lockHeld
					for _, h := range c.flow.held {
						if h.base == base {
							held = append(held, h)
						}
					}
					calls = append(calls, callRec{fn: c.name, file: c.relFile(), callee: o.qual() + "." + sel.Sel.Name,
						line: fset.Position(x.Pos()).Line, locks: held, required: req})
				}
			}
		}
		if l := c.locOf(sel); l != nil {
			// call of a function-typed field
			c.visitExpr(sel, mRead)
		} else if lx := c.locOf(sel.X); lx != nil && lx.global && mutatingType(lx.t) && !lockedGlobal[lx.owner+"."+lx.path] {
			// a method call on a package-level variable whose methods mutate the receiver
			// (math/rand.Rand, bytes.Buffer, strings.Builder) is a WRITE of that variable
			c.visitExpr(sel.X, mWrite)
		} else {
			c.visitExpr(sel.X, mRead)
		}
	} else {
		c.visitExpr(x.Fun, mRead)
	}
	for _, a := range x.Args {
		c.visitExpr(a, mRead)
	}
}

// visitLockBase records the reads needed to reach a mutex (e.g. r.db in r.db.l.Lock())
func (c *funcCtx) visitLockBase(e ast.Expr) {
	if s, ok := e.(*ast.SelectorExpr); ok {
		c.visitExpr(s.X, mRead)
	}
}

// ---------------------------------------------------------------- closures

func (c *funcCtx) visitClosure(fl *ast.FuncLit, isGo bool, isDefer bool) {
	*c.litCount++
	idx := *c.litCount
	for _, p := range fl.Type.Params.List {
		for _, n := range p.Names {
			c.setType(n, c.mkTyp(p.Type))
		}
	}
	if isGo {
		sub := *c
		sub.name = c.name + fmt.Sprintf(".func%d", idx)
		sub.flow = &flow{recvd: map[string]bool{}}
		n := 0
		sub.litCount = &n
		sub.inDefer = false
		bodyCounter++
		sub.bodyID = bodyCounter
		bodies[sub.bodyID] = &bodyInfo{stmts: fl.Body.List, fn: sub.name}
		if corePkgs[c.pkg.dir] {
			funcNames[sub.name] = true
		}
		for i, s := range fl.Body.List {
			sub.topIdx = i
			sub.visitStmt(s)
		}
		return
	}
	// plain or deferred closure: runs on this goroutine; analysed inline with the
	// locks held where it is written
	sub := *c
	sub.flow = c.flow.clone()
	sub.flow.terminated = false
	sub.inDefer = c.inDefer || isDefer
	sub.visitBlock(fl.Body)
}

// ---------------------------------------------------------------- statements

func (c *funcCtx) visitBlock(b *ast.BlockStmt) {
	if b == nil {
		return
	}
	for _, s := range b.List {
		c.visitStmt(s)
	}
}

func isNewExpr(e ast.Expr) bool {
	switch x := e.(type) {
	case *ast.CompositeLit:
		return true
	case *ast.UnaryExpr:
		if x.Op == token.AND {
			_, ok := x.X.(*ast.CompositeLit)
			return ok
		}
	case *ast.CallExpr:
		if id, ok := x.Fun.(*ast.Ident); ok && id.Obj == nil && id.Name == "new" {
			return true
		}
	}
	return false
}

func (c *funcCtx) branch(f func()) *flow {
	saved := c.flow
	c.flow = saved.clone()
	f()
	res := c.flow
	c.flow = saved
	return res
}

func (c *funcCtx) visitStmt(s ast.Stmt) {
	if c.flow.terminated {
		// unreachable in this flow (after return); still scan it with what we have
		c.flow.terminated = false
		defer func() { c.flow.terminated = true }()
	}
	switch x := s.(type) {
	case nil:
	case *ast.ExprStmt:
		c.visitExpr(x.X, mRead)
		if call, ok := x.X.(*ast.CallExpr); ok {
			if id, ok := call.Fun.(*ast.Ident); ok && id.Obj == nil && id.Name == "panic" {
				c.flow.terminated = true
			}
		}
	case *ast.SendStmt:
		c.visitExpr(x.Chan, mRead)
		c.visitExpr(x.Value, mRead)
		c.event(chanName(c, x.Chan), "send", x.Pos())
	case *ast.IncDecStmt:
		c.visitExpr(x.X, mWrite)
	case *ast.AssignStmt:
		for _, r := range x.Rhs {
			c.visitExpr(r, mRead)
		}
		for i, l := range x.Lhs {
			if x.Tok == token.DEFINE {
				if id, ok := l.(*ast.Ident); ok && id.Obj != nil && id.Obj.Decl == x {
					// new variable
					var t *typ
					if len(x.Rhs) == len(x.Lhs) {
						t = c.typeOf(x.Rhs[i])
						if isNewExpr(x.Rhs[i]) {
							c.freshObj[id.Obj] = true
						}
					} else if len(x.Rhs) == 1 {
						t = c.typeOfN(x.Rhs[0], i)
						if i == 0 && t == nil {
							t = c.typeOf(x.Rhs[0])
						}
					}
					c.setType(id, t)
					if c.captured[id.Obj] {
						c.visitExpr(id, mWrite)
					}
					continue
				}
			}
			c.visitExpr(l, mWrite)
			if id, ok := l.(*ast.Ident); ok && id.Obj != nil && len(x.Rhs) == len(x.Lhs) {
				if c.objTypes[id.Obj] == nil {
					c.setType(id, c.typeOf(x.Rhs[i]))
				}
				if isNewExpr(x.Rhs[i]) && x.Tok == token.ASSIGN {
					c.freshObj[id.Obj] = true
				}
			}
		}
	case *ast.DeclStmt:
		if gd, ok := x.Decl.(*ast.GenDecl); ok {
			for _, sp := range gd.Specs {
				if vs, ok := sp.(*ast.ValueSpec); ok {
					for _, v := range vs.Values {
						c.visitExpr(v, mRead)
					}
					for i, n := range vs.Names {
						if vs.Type != nil {
							c.setType(n, c.mkTyp(vs.Type))
						} else if i < len(vs.Values) {
							c.setType(n, c.typeOf(vs.Values[i]))
							if isNewExpr(vs.Values[i]) && n.Obj != nil {
								c.freshObj[n.Obj] = true
							}
						}
						if n.Obj != nil && c.captured[n.Obj] && i < len(vs.Values) {
							c.visitExpr(n, mWrite)
						}
					}
				}
			}
		}
	case *ast.GoStmt:
		for _, a := range x.Call.Args {
			c.visitExpr(a, mRead)
		}
		if fl, ok := x.Call.Fun.(*ast.FuncLit); ok {
			c.visitClosure(fl, true, false)
		} else if sel, ok := x.Call.Fun.(*ast.SelectorExpr); ok {
			c.visitExpr(sel.X, mRead)
		}
	case *ast.DeferStmt:
		if sel, ok := x.Call.Fun.(*ast.SelectorExpr); ok {
			if _, _, ok, _ := c.lockOf(sel.X); ok && (sel.Sel.Name == "Unlock" || sel.Sel.Name == "RUnlock") {
				return // held until the function returns
			}
		}
		if fl, ok := x.Call.Fun.(*ast.FuncLit); ok {
			for _, a := range x.Call.Args {
				c.visitExpr(a, mRead)
			}
			c.visitClosure(fl, false, true)
			return
		}
		saved := c.inDefer
		c.inDefer = true
		c.visitCall(x.Call)
		c.inDefer = saved
	case *ast.ReturnStmt:
		for _, r := range x.Results {
			c.visitExpr(r, mRead)
		}
		c.flow.terminated = true
	case *ast.BranchStmt:
		// break / continue / goto: treated as falling out of the construct
	case *ast.BlockStmt:
		c.visitBlock(x)
	case *ast.LabeledStmt:
		c.visitStmt(x.Stmt)
	case *ast.IfStmt:
		c.visitStmt(x.Init)
		c.visitExpr(x.Cond, mRead)
		thenF := c.branch(func() { c.visitBlock(x.Body) })
		var elseF *flow
		if x.Else != nil {
			elseF = c.branch(func() { c.visitStmt(x.Else) })
		} else {
			elseF = c.flow.clone()
		}
		c.flow = mergeFlows(thenF, elseF)
	case *ast.ForStmt:
		c.visitStmt(x.Init)
		c.visitExpr(x.Cond, mRead)
		body := c.branch(func() { c.visitBlock(x.Body); c.visitStmt(x.Post) })
		_ = body
		if x.Cond == nil && !hasBreak(x.Body) {
			c.flow.terminated = true
		}
	case *ast.RangeStmt:
		c.visitExpr(x.X, mRead)
		tx := c.typeOf(x.X)
		if tx != nil {
			switch y := tx.expr.(type) {
			case *ast.MapType:
				if id, ok := x.Value.(*ast.Ident); ok {
					c.setType(id, &typ{y.Value, tx.pkg, tx.file})
				}
			case *ast.ArrayType:
				if id, ok := x.Value.(*ast.Ident); ok {
					c.setType(id, &typ{y.Elt, tx.pkg, tx.file})
				}
			case *ast.ChanType:
				c.event(chanName(c, x.X), "recv", x.Pos())
				if id, ok := x.Key.(*ast.Ident); ok {
					c.setType(id, &typ{y.Value, tx.pkg, tx.file})
				}
			}
		}
		if x.Tok == token.ASSIGN {
			c.visitExpr(x.Key, mWrite)
			c.visitExpr(x.Value, mWrite)
		}
		c.branch(func() { c.visitBlock(x.Body) })
	case *ast.SwitchStmt:
		c.visitStmt(x.Init)
		c.visitExpr(x.Tag, mRead)
		c.visitCases(x.Body, false)
	case *ast.TypeSwitchStmt:
		c.visitStmt(x.Init)
		c.visitStmt(x.Assign)
		c.visitCases(x.Body, false)
	case *ast.SelectStmt:
		c.visitCases(x.Body, true)
	}
}

func hasBreak(b *ast.BlockStmt) bool {
	found := false
	ast.Inspect(b, func(n ast.Node) bool {
		switch x := n.(type) {
		case *ast.FuncLit:
			return false
		case *ast.BranchStmt:
			if x.Tok == token.BREAK || x.Tok == token.GOTO {
				found = true
			}
		case *ast.ReturnStmt:
			found = true
		}
		return true
	})
	return found
}

func (c *funcCtx) visitCases(body *ast.BlockStmt, isSelect bool) {
	var ends []*flow
	hasDefault := false
	for _, cl := range body.List {
		switch cc := cl.(type) {
		case *ast.CaseClause:
			if cc.List == nil {
				hasDefault = true
			}
			ends = append(ends, c.branch(func() {
				for _, e := range cc.List {
					c.visitExpr(e, mRead)
				}
				for _, s := range cc.Body {
					c.visitStmt(s)
				}
			}))
		case *ast.CommClause:
			ends = append(ends, c.branch(func() {
				c.visitStmt(cc.Comm)
				for _, s := range cc.Body {
					c.visitStmt(s)
				}
			}))
		}
	}
	if !isSelect && !hasDefault {
		ends = append(ends, c.flow.clone())
	}
	if len(ends) > 0 {
		c.flow = mergeFlows(ends...)
	}
}

// ---------------------------------------------------------------- per function

func containsReturn(s ast.Stmt) bool {
	found := false
	ast.Inspect(s, func(n ast.Node) bool {
		switch n.(type) {
		case *ast.FuncLit:
			return false
		case *ast.ReturnStmt:
			found = true
		}
		return true
	})
	return found
}

// signalAfter: channels closed / sent to by an unconditional top-level statement
// after statement i, with no return in between
func signalsOfBody(c *funcCtx, stmts []ast.Stmt) map[int][]string {
	res := map[int][]string{}
	for i := range stmts {
		for j := i + 1; j < len(stmts); j++ {
			if containsReturn(stmts[j-1]) && j-1 >= i {
				break
			}
			switch y := stmts[j].(type) {
			case *ast.ExprStmt:
				if call, ok := y.X.(*ast.CallExpr); ok {
					if id, ok := call.Fun.(*ast.Ident); ok && id.Obj == nil && id.Name == "close" && len(call.Args) == 1 {
						res[i] = append(res[i], chanName(c, call.Args[0]))
					}
				}
			case *ast.SendStmt:
				res[i] = append(res[i], chanName(c, y.Chan))
			}
		}
	}
	return res
}

func funcQualName(p *pkgInfo, fd *ast.FuncDecl) string {
	if fd.Recv != nil {
		return p.name + "." + typeBaseName(fd.Recv.List[0].Type) + "." + fd.Name.Name
	}
	return p.name + "." + fd.Name.Name
}

func analyseFunc(p *pkgInfo, f *ast.File, fd *ast.FuncDecl) {
	if fd.Body == nil {
		return
	}
	name := funcQualName(p, fd)
	n := 0
	bodyCounter++
	c := &funcCtx{pkg: p, file: f, decl: fd, name: name, topName: name, objTypes: map[*ast.Object]*typ{},
		freshObj: map[*ast.Object]bool{}, captured: map[*ast.Object]bool{}, flow: &flow{recvd: map[string]bool{}},
		litCount: &n, bodyID: bodyCounter}
	bodies[c.bodyID] = &bodyInfo{stmts: fd.Body.List, fn: name}
	if fd.Recv != nil {
		for _, r := range fd.Recv.List {
			for _, nm := range r.Names {
				c.setType(nm, c.mkTyp(r.Type))
			}
		}
		if trackedTypes[p.name+"."+typeBaseName(fd.Recv.List[0].Type)] {
			funcNames[name] = true
		}
	}
	for _, pr := range fd.Type.Params.List {
		for _, nm := range pr.Names {
			c.setType(nm, c.mkTyp(pr.Type))
		}
	}
	if fd.Type.Results != nil {
		for _, pr := range fd.Type.Results.List {
			for _, nm := range pr.Names {
				c.setType(nm, c.mkTyp(pr.Type))
			}
		}
	}
	// locals captured by goroutines started in this function (only in the packages of the
	// tracked types; the other packages are scanned for package-level variables and for
	// accesses to exported fields of tracked types)
	goIdx := -1
	for i, s := range fd.Body.List {
		if !corePkgs[p.dir] {
			break
		}
		ast.Inspect(s, func(nd ast.Node) bool {
			gs, ok := nd.(*ast.GoStmt)
			if !ok {
				return true
			}
			fl, ok := gs.Call.Fun.(*ast.FuncLit)
			if !ok {
				return true
			}
			if goIdx < 0 {
				if s == ast.Stmt(gs) {
					goIdx = i
				} else {
					goIdx = 1 << 30 // nested go statement: no ordering claim
				}
			}
			ast.Inspect(fl.Body, func(m ast.Node) bool {
				id, ok := m.(*ast.Ident)
				if !ok || id.Obj == nil || id.Obj.Kind != ast.Var {
					return true
				}
				pos := id.Obj.Pos()
				if pos >= fd.Body.Pos() && pos < fd.Body.End() && !(pos >= fl.Pos() && pos < fl.End()) {
					switch id.Obj.Decl.(type) {
					case *ast.AssignStmt, *ast.ValueSpec:
						c.captured[id.Obj] = true
					}
				}
				return true
			})
			return true
		})
	}
	c.flow.held = append(c.flow.held, entryLocks(fd, p)...)
	first := len(accesses)
	for i, s := range fd.Body.List {
		c.topIdx = i
		c.visitStmt(s)
	}
	// accesses of captured locals before the goroutine is started are ordered by the go statement
	for _, a := range accesses[first:] {
		if a.local && a.bodyID == c.bodyID && goIdx >= 0 && goIdx < 1<<30 && a.topIdx < goIdx {
			a.fresh = true
		}
	}
	// release side of channel ordering
	for _, a := range accesses[first:] {
		b := bodies[a.bodyID]
		if b == nil || a.topIdx >= len(b.stmts) {
			continue
		}
		sig := signalsOfBody(c, b.stmts)
		a.signal = append(a.signal, sig[a.topIdx]...)
		sort.Strings(a.signal)
	}
}

// ---------------------------------------------------------------- printing

// strings are interned as Coq definitions (S_<sanitised>): a literal is parsed once
var (
	internName = map[string]string{}
	internUsed = map[string]bool{}
	internList []string
)

func q(s string) string {
	if n, ok := internName[s]; ok {
		return n
	}
	var b strings.Builder
	b.WriteString("S_")
	for _, r := range s {
		if r >= 'a' && r <= 'z' || r >= 'A' && r <= 'Z' || r >= '0' && r <= '9' {
			b.WriteRune(r)
		} else {
			b.WriteByte('_')
		}
	}
	n := b.String()
	for internUsed[n] {
		n += "'"
	}
	internUsed[n] = true
	internName[s] = n
	internList = append(internList, s)
	return n
}

func internDefs() string {
	l := append([]string(nil), internList...)
	sort.Strings(l)
	var b strings.Builder
	for _, s := range l {
		fmt.Fprintf(&b, "Definition %s : string := \"%s\".\n", internName[s], strings.ReplaceAll(s, "\"", "\"\""))
	}
	return b.String()
}

func qlist(l []string) string {
	var r []string
	seen := map[string]bool{}
	for _, s := range l {
		if !seen[s] {
			seen[s] = true
			r = append(r, q(s))
		}
	}
	return "[" + strings.Join(r, "; ") + "]"
}

func lockList(l []lockHeld) string {
	var r []string
	seen := map[string]bool{}
	sorted := append([]lockHeld(nil), l...)
	sort.Slice(sorted, func(i, j int) bool { return sorted[i].name < sorted[j].name })
	for _, h := range sorted {
		m := "Shared"
		if h.excl {
			m = "Exclusive"
		}
		s := "(" + q(h.name) + ", " + m + ")"
		if !seen[s] {
			seen[s] = true
			r = append(r, s)
		}
	}
	return "[" + strings.Join(r, "; ") + "]"
}

func boolStr(b bool) string {
	if b {
		return "true"
	}
	return "false"
}

func main() {
	repo := flag.String("repo", "/repo", "root of the repository (contains dnsrocks/)")
	out := flag.String("out", "", "output file (Coq); stdout if empty")
	flag.Parse()
	if err := load(*repo); err != nil {
		fmt.Fprintln(os.Stderr, "gotab:", err)
		os.Exit(2)
	}
	for _, d := range pkgDirs {
		p := pkgs[d]
		for _, f := range p.files {
			for _, decl := range f.Decls {
				if fd, ok := decl.(*ast.FuncDecl); ok {
					analyseFunc(p, f, fd)
				}
			}
		}
		// the declaration of a package-level variable (with or without initialiser) is a write by
		// the package initialisation, which happens before main and every goroutine
		var vn []string
		for n := range p.vars {
			vn = append(vn, n)
		}
		sort.Strings(vn)
		for _, n := range vn {
			v := p.vars[n]
			k := 0
			c := &funcCtx{pkg: p, file: v.file, name: p.name + ".init", topName: p.name + ".init", objTypes: map[*ast.Object]*typ{},
				freshObj: map[*ast.Object]bool{}, captured: map[*ast.Object]bool{}, flow: &flow{recvd: map[string]bool{}}, litCount: &k}
			c.record(&loc{owner: p.name, path: n, base: globalBase, t: v.t, global: true}, true, v.spec.Pos())
		}
	}
	var lines []string
	seen := map[string]bool{}
	sort.SliceStable(accesses, func(i, j int) bool {
		a, b := accesses[i], accesses[j]
		if a.file != b.file {
			return a.file < b.file
		}
		if a.line != b.line {
			return a.line < b.line
		}
		if a.fn != b.fn {
			return a.fn < b.fn
		}
		if a.owner != b.owner {
			return a.owner < b.owner
		}
		if a.field != b.field {
			return a.field < b.field
		}
		return !a.write && b.write
	})
	for _, a := range accesses {
		k := "Read"
		if a.write {
			k = "Write"
		}
		s := fmt.Sprintf("  mkA %s %s %d %s %s %s %s %s %s %s %s %s", q(a.fn), q(a.file), a.line, q(a.owner), q(a.field), k,
			lockList(a.locks), boolStr(a.fresh), boolStr(a.local), boolStr(a.global), qlist(a.recv), qlist(a.signal))
		if !seen[s] {
			seen[s] = true
			lines = append(lines, s)
		}
	}
	var hdr, b bytes.Buffer
	fmt.Fprintf(&hdr, "(* GENERATED by harness/cmd/gotab from the Go sources (dnsrocks/{%s}); DO NOT EDIT.\n", strings.Join(pkgDirs, ","))
	fmt.Fprintf(&hdr, "   Regenerated on every run of ./check C14 (lib/props/c14.py pre_build); a committed copy is overwritten.\n")
	fmt.Fprintf(&hdr, "   One record per read / write of a field of a tracked struct type (or of a local variable captured by a\n")
	fmt.Fprintf(&hdr, "   goroutine): function, file, line, owner type, field, kind, mutexes of the same object held there,\n")
	fmt.Fprintf(&hdr, "   fresh (object allocated in this function / before the goroutine starts), local (captured local\n")
	fmt.Fprintf(&hdr, "   variable: owner is the declaring function), global (package-level variable: owner is the package;\n")
	fmt.Fprintf(&hdr, "   its declaration is a write by <pkg>.init), channels received from on\n")
	fmt.Fprintf(&hdr, "   every path before it, channels closed or sent to unconditionally after it. *)\n")
	fmt.Fprintf(&hdr, "From Coq Require Import List String NArith.\nFrom DnsV Require Import Model.AccessTypes.\nImport ListNotations.\nOpen Scope string_scope.\nOpen Scope N_scope.\n\n")
	fmt.Fprintf(&b, "Definition accesses : list access := [\n%s\n].\n\n", strings.Join(lines, ";\n"))

	var cl []string
	sort.Slice(calls, func(i, j int) bool {
		if calls[i].file != calls[j].file {
			return calls[i].file < calls[j].file
		}
		return calls[i].line < calls[j].line
	})
	for _, c := range calls {
		cl = append(cl, fmt.Sprintf("  mkC %s %s %d %s %s %s", q(c.fn), q(c.file), c.line, q(c.callee), lockList(c.locks), lockList(c.required)))
	}
	fmt.Fprintf(&b, "(* call sites of methods documented [caller must hold ...]: locks held at the call, locks required *)\n")
	fmt.Fprintf(&b, "Definition calls : list callsite := [\n%s\n].\n\n", strings.Join(cl, ";\n"))

	var fl []string
	for f := range funcNames {
		fl = append(fl, f)
	}
	sort.Strings(fl)
	var fq []string
	for _, f := range fl {
		fq = append(fq, "  "+q(f))
	}
	fmt.Fprintf(&b, "(* every method of a tracked type and every function with at least one access *)\n")
	fmt.Fprintf(&b, "Definition functions : list string := [\n%s\n].\n\n", strings.Join(fq, ";\n"))

	var el []string
	sort.Slice(events, func(i, j int) bool {
		if events[i].file != events[j].file {
			return events[i].file < events[j].file
		}
		if events[i].line != events[j].line {
			return events[i].line < events[j].line
		}
		return events[i].op < events[j].op
	})
	seenE := map[string]bool{}
	for _, e := range events {
		op := map[string]string{"close": "ChClose", "recv": "ChRecv", "send": "ChSend"}[e.op]
		s := fmt.Sprintf("  mkE %s %s %d %s %s", q(e.fn), q(e.file), e.line, q(e.ch), op)
		if !seenE[s] {
			seenE[s] = true
			el = append(el, s)
		}
	}
	fmt.Fprintf(&b, "(* channel operations (synchronisation events) *)\n")
	fmt.Fprintf(&b, "Definition chan_events : list chan_event := [\n%s\n].\n", strings.Join(el, ";\n"))
	if len(notes) > 0 {
		sort.Strings(notes)
		fmt.Fprintf(&b, "\n(* translator notes:\n")
		for _, n := range notes {
			fmt.Fprintf(&b, "   %s\n", strings.ReplaceAll(n, "\"", "'"))
		}
		fmt.Fprintf(&b, "*)\n")
	}
	var all bytes.Buffer
	all.Write(hdr.Bytes())
	all.WriteString(internDefs())
	all.WriteString("\n")
	all.Write(b.Bytes())
	b = all
	if *out == "" {
		os.Stdout.Write(b.Bytes())
		return
	}
	old, err := os.ReadFile(*out)
	if err == nil && bytes.Equal(old, b.Bytes()) {
		return // unchanged: keep the time stamp so that nothing is rebuilt
	}
	os.MkdirAll(filepath.Dir(*out), 0o755)
	tmp := *out + ".tmp"
	if err := os.WriteFile(tmp, b.Bytes(), 0o644); err != nil {
		fmt.Fprintln(os.Stderr, "gotab:", err)
		os.Exit(2)
	}
	if err := os.Rename(tmp, *out); err != nil {
		fmt.Fprintln(os.Stderr, "gotab:", err)
		os.Exit(2)
	}
}
