// C18 harness: svcb.ParamList FromText / ToWire / ToText on generated parameter lists,
// the B / H record path through dnsdata.Codec.ConvertLn, and an independent decode of
// the emitted RDATA by miekg/dns.
//
// Every accepted input is emitted twice: kind "wire" (acceptance, wire data, decoders, record
// row) and kind "rt" (ToText of the stored list and FromText of that text); a rejected input
// only as kind "wire".
package main

import (
	"bytes"
	"encoding/base64"
	"encoding/binary"
	"encoding/json"
	"errors"
	"fmt"
	"net"
	"net/netip"
	"strconv"
	"strings"

	"github.com/miekg/dns"

	"github.com/facebookincubator/dns/dnsrocks/dnsdata"
	"github.com/facebookincubator/dns/dnsrocks/dnsdata/svcb"

	"verifharness/hlib"
)

// sval is one declared / decoded parameter (Spec/SvcbWire.v sval).
type sval struct {
	K   int     `json:"k"`
	Ks  []int   `json:"ks,omitempty"`  // mandatory
	Ids [][]int `json:"ids,omitempty"` // alpn
	P   int     `json:"p,omitempty"`   // port
	A   [][]int `json:"a,omitempty"`   // hints
	B   []int   `json:"b,omitempty"`   // ech / opaque
}

type recIn struct {
	Type   int    `json:"type"` // 64 SVCB ('B' line), 65 HTTPS ('H' line)
	TTL    int    `json:"ttl"`
	Prio   int    `json:"prio"`
	Target string `json:"target"`
	Wild   bool   `json:"wild"` // owner name written as *.example.com
}

type recObs struct {
	recIn
	Err bool  `json:"err"`
	Row []int `json:"row"`
}

type pair struct {
	K []int `json:"k"`
	V []int `json:"v"` // nil = failure (parse / decode oracles)
	N bool  `json:"n"` // true when the library call failed
}

type c18case struct {
	Kind   string  `json:"kind"`
	Class  string  `json:"class"`
	Text   []int   `json:"text"`
	Decl   *[]sval `json:"decl"` // generator's intent, nil when there is none
	Rec    *recObs `json:"rec"`
	Parse  []pair  `json:"parse"`
	Print  []pair  `json:"print"`
	B64d   []pair  `json:"b64d"`
	B64e   []pair  `json:"b64e"`
	Ft     int     `json:"ft"`
	FtMsg  string  `json:"ft_msg,omitempty"`
	Wire   []int   `json:"wire"`
	Tt     int     `json:"tt"`
	Txt    []int   `json:"txt"`
	Rp     int     `json:"rp"`
	Wire2  []int   `json:"wire2"`
	Mk     int     `json:"mk"`
	MkMsg  string  `json:"mk_msg,omitempty"`
	Mkv    []sval  `json:"mkv"`
	Mapped bool    `json:"mapped6"` // informational: the wire data holds a v4-mapped ipv6hint
}

// ---------------------------------------------------------------- observation

func errCode(err error) int {
	if err == nil {
		return 0
	}
	var ne *strconv.NumError
	if errors.As(err, &ne) {
		if ne.Err == strconv.ErrRange {
			return 9
		}
		return 8
	}
	var ce base64.CorruptInputError
	if errors.As(err, &ce) {
		return 12
	}
	s := err.Error()
	switch {
	case strings.HasPrefix(s, "error parsing SVCB/HTTPS parameter: "):
		return 1
	case strings.HasPrefix(s, "unknown SVCB/HTTPS parameter: "):
		return 2
	case strings.HasPrefix(s, "value for ") && strings.HasSuffix(s, " cannot be empty"):
		return 3
	case strings.HasSuffix(s, " is not a valid mandatory value"):
		return 4
	case s == "mandatory itself cannot be mandatory":
		return 5
	case strings.HasSuffix(s, " in mandatory values has appeared more than once"):
		return 6
	case s == "the value for no-default-alpn should be empty":
		return 7
	case strings.HasSuffix(s, " is not a valid IPv4 address"):
		return 10
	case strings.HasSuffix(s, " is a valid address but cannot be converted to 4-byte form"):
		return 11
	case strings.HasSuffix(s, " is not a valid IPv6 address"):
		return 13
	case strings.HasSuffix(s, " is not a parsable IPv6 address"):
		return 14
	case strings.HasPrefix(s, "error parsing ") && strings.HasSuffix(s, ": keys have to be unique"):
		return 15
	case strings.HasSuffix(s, " is mandatory but missing in parameter list"):
		return 16
	case strings.HasPrefix(s, "alpn id ") && strings.HasSuffix(s, " must be 1 to 255 bytes long"):
		return 17
	case strings.HasPrefix(s, "value for ") && strings.HasSuffix(s, " is longer than 65535 bytes"):
		return 18
	}
	return 99
}

func ints2(bs [][]byte) [][]int {
	r := make([][]int, len(bs))
	for i, b := range bs {
		r[i] = hlib.Ints(b)
	}
	return r
}

// tlv walks the SvcParams framing (key, length, value); ok = false when it does not fit.
func tlv(w []byte) (keys []int, vals [][]byte, ok bool) {
	for len(w) > 0 {
		if len(w) < 4 {
			return keys, vals, false
		}
		k := int(binary.BigEndian.Uint16(w))
		n := int(binary.BigEndian.Uint16(w[2:]))
		if 4+n > len(w) {
			return keys, vals, false
		}
		keys = append(keys, k)
		vals = append(vals, w[4:4+n])
		w = w[4+n:]
	}
	return keys, vals, true
}

type oracleSet struct {
	parse, print, b64d, b64e []pair
	seen                     map[string]bool
}

func (o *oracleSet) once(tag string, k []byte) bool {
	if o.seen == nil {
		o.seen = map[string]bool{}
	}
	key := tag + string(k)
	if o.seen[key] {
		return false
	}
	o.seen[key] = true
	return true
}

// fromParamText records what net.ParseIP / base64 Decode answer on the value tokens of a
// parameter text (the tokenisation only decides WHICH questions are put to the library).
func (o *oracleSet) fromParamText(t []byte) {
	for _, seg := range bytes.Split(t, []byte(";")) {
		kv := bytes.SplitN(seg, []byte("="), 2)
		if len(kv) != 2 {
			continue
		}
		v := bytes.Trim(kv[1], "\"")
		switch string(kv[0]) {
		case "ipv4hint", "ipv6hint":
			for _, tok := range bytes.Split(v, []byte("|")) {
				if len(tok) > 96 || !o.once("p", tok) {
					continue
				}
				ip := net.ParseIP(string(tok))
				if ip == nil {
					o.parse = append(o.parse, pair{K: hlib.Ints(tok), N: true})
				} else {
					o.parse = append(o.parse, pair{K: hlib.Ints(tok), V: hlib.Ints(append([]byte{}, ip...))})
				}
			}
		case "echconfig":
			if !o.once("d", v) {
				continue
			}
			out := make([]byte, base64.StdEncoding.DecodedLen(len(v)))
			n, err := base64.StdEncoding.Decode(out, append([]byte{}, v...))
			if err != nil {
				o.b64d = append(o.b64d, pair{K: hlib.Ints(v), N: true})
			} else {
				o.b64d = append(o.b64d, pair{K: hlib.Ints(v), V: hlib.Ints(out[:n])})
			}
		}
	}
}

// fromWire records what net.IP.String / base64 Encode answer on the stored values.
func (o *oracleSet) fromWire(w []byte) {
	keys, vals, _ := tlv(w)
	for i, k := range keys {
		v := vals[i]
		step := 0
		switch k {
		case 4:
			step = 4
		case 6:
			step = 16
		case 5:
			if o.once("e", v) {
				out := make([]byte, base64.StdEncoding.EncodedLen(len(v)))
				base64.StdEncoding.Encode(out, v)
				o.b64e = append(o.b64e, pair{K: hlib.Ints(v), V: hlib.Ints(out)})
			}
		}
		if step > 0 {
			for off := 0; off+step <= len(v); off += step {
				a := append([]byte{}, v[off:off+step]...)
				if o.once("s", a) {
					o.print = append(o.print, pair{K: hlib.Ints(a), V: hlib.Ints([]byte(net.IP(a).String()))})
				}
			}
		}
	}
}

func hasMapped6(w []byte) bool {
	keys, vals, _ := tlv(w)
	for i, k := range keys {
		if k != 6 {
			continue
		}
		v := vals[i]
		for off := 0; off+16 <= len(v); off += 16 {
			if bytes.Equal(v[off:off+12], []byte{0, 0, 0, 0, 0, 0, 0, 0, 0, 0, 0xff, 0xff}) {
				return true
			}
		}
	}
	return false
}

// miekgView unpacks an SVCB RR whose RDATA is priority 1, target ".", and the given params.
func miekgView(wire []byte) (int, string, []sval) {
	rd := append([]byte{0, 1, 0}, wire...)
	if len(rd) > 65535 {
		return 2, "rdata too long", nil
	}
	msg := []byte{0, 0, 64, 0, 1, 0, 0, 0, 60, byte(len(rd) >> 8), byte(len(rd))}
	msg = append(msg, rd...)
	rr, _, err := dns.UnpackRR(msg, 0)
	if err != nil {
		return 1, err.Error(), nil
	}
	s, ok := rr.(*dns.SVCB)
	if !ok {
		return 1, fmt.Sprintf("unexpected RR type %T", rr), nil
	}
	res := []sval{}
	for _, kv := range s.Value {
		switch x := kv.(type) {
		case *dns.SVCBMandatory:
			v := sval{K: 0, Ks: []int{}}
			for _, c := range x.Code {
				v.Ks = append(v.Ks, int(c))
			}
			res = append(res, v)
		case *dns.SVCBAlpn:
			v := sval{K: 1, Ids: [][]int{}}
			for _, a := range x.Alpn {
				v.Ids = append(v.Ids, hlib.Ints([]byte(a)))
			}
			res = append(res, v)
		case *dns.SVCBNoDefaultAlpn:
			res = append(res, sval{K: 2})
		case *dns.SVCBPort:
			res = append(res, sval{K: 3, P: int(x.Port)})
		case *dns.SVCBIPv4Hint:
			v := sval{K: 4, A: [][]int{}}
			for _, a := range x.Hint {
				v.A = append(v.A, hlib.Ints(a))
			}
			res = append(res, v)
		case *dns.SVCBECHConfig:
			res = append(res, sval{K: 5, B: hlib.Ints(x.ECH)})
		case *dns.SVCBIPv6Hint:
			v := sval{K: 6, A: [][]int{}}
			for _, a := range x.Hint {
				v.A = append(v.A, hlib.Ints(a))
			}
			res = append(res, v)
		case *dns.SVCBLocal:
			res = append(res, sval{K: int(x.KeyCode), B: hlib.Ints(x.Data)})
		default:
			return 1, fmt.Sprintf("unexpected key type %T", kv), nil
		}
	}
	return 0, "", res
}

func toTextSafe(l *svcb.ParamList) (out []byte, panicked bool) {
	defer func() {
		if r := recover(); r != nil {
			out, panicked = nil, true
		}
	}()
	var b bytes.Buffer
	l.ToText(&b)
	return b.Bytes(), false
}

type input struct {
	text  []byte
	decl  *[]sval
	rec   *recIn
	class string
}

func runOne(in input, e *hlib.Emitter) {
	for _, c := range observe(in) {
		// a rejected input has nothing to print: its rt case would repeat the wire case
		if c.Kind == "rt" && c.Ft != 0 {
			continue
		}
		e.Emit(c)
	}
}

// interfere parses, emits and prints other parameter lists.  A list that was parsed before
// ("the stored parameters" of the property) must still emit and print what it declared:
// the class suffix +stored marks the histories parse; other parses; emit/print.
func interfere() {
	for _, t := range []string{
		"mandatory=alpn|port;alpn=zz|h9|q;no-default-alpn=;port=9;ipv4hint=9.9.9.9|8.8.8.8|7.7.7.7;echconfig=\"OTk5OTk5\";ipv6hint=9::9|8::8",
		"ipv4hint=203.0.113.77;ipv6hint=fe80::7;alpn=x;port=65000;echconfig=enp6eg==",
	} {
		var o svcb.ParamList
		if o.FromText([]byte(t)) == nil {
			var b bytes.Buffer
			o.ToWire(&b)
			toTextSafe(&o)
		}
	}
}

// observe runs the implementation on one input and returns the two cases (wire, rt).
func observe(in input) []c18case {
	c := c18case{Class: in.class, Text: hlib.Ints(in.text), Decl: in.decl, Tt: 2, Mk: 2,
		Wire: []int{}, Txt: []int{}, Wire2: []int{}, Mkv: []sval{}}
	var o oracleSet
	o.fromParamText(in.text)

	var l svcb.ParamList
	err := l.FromText(append([]byte{}, in.text...))
	c.Ft = errCode(err)
	if strings.HasSuffix(in.class, "+stored") {
		interfere()
	}
	var wire []byte
	if err != nil {
		c.FtMsg = err.Error()
		if len(c.FtMsg) > 120 {
			c.FtMsg = c.FtMsg[:120]
		}
	} else {
		var wb bytes.Buffer
		if werr := l.ToWire(&wb); werr != nil {
			c.Ft = 98
			c.FtMsg = "ToWire: " + werr.Error()
		}
		wire = append([]byte{}, wb.Bytes()...)
		c.Wire = hlib.Ints(wire)
		c.Mapped = hasMapped6(wire)
		o.fromWire(wire)
		c.Mk, c.MkMsg, c.Mkv = miekgView(wire)
		if c.Mkv == nil {
			c.Mkv = []sval{}
		}
		txt, panicked := toTextSafe(&l)
		if panicked {
			c.Tt = 1
		} else {
			c.Tt = 0
			txt = append([]byte{}, txt...)
			c.Txt = hlib.Ints(txt)
			o.fromParamText(txt)
			var l2 svcb.ParamList
			err2 := l2.FromText(append([]byte{}, txt...))
			c.Rp = errCode(err2)
			if err2 == nil {
				var wb2 bytes.Buffer
				l2.ToWire(&wb2)
				c.Wire2 = hlib.Ints(wb2.Bytes())
				o.fromWire(wb2.Bytes())
			}
		}
	}
	if in.rec != nil && !bytes.ContainsAny(in.text, ",\n") {
		ro := recObs{recIn: *in.rec, Row: []int{}}
		prefix := "H"
		if in.rec.Type == 64 {
			prefix = "B"
		}
		if in.rec.Wild {
			prefix += "*."
		}
		line := []byte(fmt.Sprintf("%sexample.com,%s,%d,,%d,", prefix, in.rec.Target, in.rec.TTL, in.rec.Prio))
		line = append(line, in.text...)
		codec := new(dnsdata.Codec)
		mr, cerr := codec.ConvertLn(line)
		if cerr != nil || len(mr) != 1 {
			ro.Err = true
		} else {
			ro.Row = hlib.Ints(mr[0].Value)
		}
		c.Rec = &ro
	}
	nz := func(p []pair) []pair {
		if p == nil {
			return []pair{}
		}
		return p
	}
	c.Parse, c.Print, c.B64d, c.B64e = nz(o.parse), nz(o.print), nz(o.b64d), nz(o.b64e)
	c.Kind = "wire"
	c2 := c
	c2.Kind = "rt"
	c2.Rec = nil
	return []c18case{c, c2}
}

// ---------------------------------------------------------------- generation

var keyNames = []string{"mandatory", "alpn", "no-default-alpn", "port", "ipv4hint", "echconfig", "ipv6hint"}

func quoteVariant(r *hlib.Rng, v []byte) []byte {
	switch r.Pick([]int{5, 5, 1, 1}) {
	case 0:
		return v
	case 1:
		return append(append([]byte{'"'}, v...), '"')
	case 2:
		return append(append([]byte{'"', '"'}, v...), '"')
	default:
		return append([]byte{'"'}, v...)
	}
}

func genAddr6(r *hlib.Rng) []byte {
	a := make([]byte, 16)
	switch r.Pick([]int{5, 4, 2, 1, 1, 1}) {
	case 0:
		copy(a, r.Bytes(16, nil))
	case 1: // runs of zero groups
		copy(a, r.Bytes(16, nil))
		for g := 0; g < 8; g++ {
			if r.Chance(1, 2) {
				a[2*g], a[2*g+1] = 0, 0
			}
		}
	case 2: // v4-mapped (the shape of finding F8)
		a[10], a[11] = 0xff, 0xff
		copy(a[12:], r.Bytes(4, nil))
	case 3: // v4-compatible
		copy(a[12:], r.Bytes(4, nil))
	case 4:
		a[15] = byte(r.Intn(2))
	default:
		a[0], a[1] = 0x20, 0x01
		a[2], a[3] = 0x0d, 0xb8
		a[15] = byte(r.Intn(256))
	}
	return a
}

func text6(r *hlib.Rng, a []byte) []byte {
	var arr [16]byte
	copy(arr[:], a)
	switch r.Pick([]int{5, 2, 1}) {
	case 0:
		return []byte(netip.AddrFrom16(arr).String())
	case 1:
		parts := make([]string, 8)
		for g := 0; g < 8; g++ {
			parts[g] = strconv.FormatUint(uint64(a[2*g])<<8|uint64(a[2*g+1]), 16)
		}
		return []byte(strings.Join(parts, ":"))
	default:
		parts := make([]string, 8)
		for g := 0; g < 8; g++ {
			parts[g] = strings.ToUpper(fmt.Sprintf("%04x", uint64(a[2*g])<<8|uint64(a[2*g+1])))
		}
		return []byte(strings.Join(parts, ":"))
	}
}

func text4(r *hlib.Rng, a []byte) []byte {
	s := fmt.Sprintf("%d.%d.%d.%d", a[0], a[1], a[2], a[3])
	if r.Chance(1, 6) {
		return []byte("::ffff:" + s)
	}
	return []byte(s)
}

var alpnPool = []string{"h2", "h3", "h3-29", "http/1.1", "a\"b", "x=y", "\\,", "dot", "\xc3\xa9", " ", "\x00", "a b", "H2", "'q'", "\"in\"ner"}

func genAlpnID(r *hlib.Rng) []byte {
	switch r.Pick([]int{8, 2, 1}) {
	case 0:
		return []byte(alpnPool[r.Intn(len(alpnPool))])
	case 1:
		b := r.Bytes(1+r.Intn(6), nil)
		for i := range b {
			if b[i] == ';' || b[i] == '|' {
				b[i] = 'z'
			}
		}
		return b
	default:
		return bytes.Repeat([]byte{byte('a' + r.Intn(26))}, 255)
	}
}

// genValue returns the value text and the declared value of one parameter; present is the
// set of keys of the list (needed by mandatory).
func genValue(r *hlib.Rng, k int, present []int) ([]byte, sval) {
	bar := []byte("|")
	switch k {
	case 0:
		var others []int
		for _, p := range present {
			if p != 0 {
				others = append(others, p)
			}
		}
		r.Shuffle(len(others), func(i, j int) { others[i], others[j] = others[j], others[i] })
		n := 1 + r.Intn(len(others))
		ks := others[:n]
		var names [][]byte
		for _, x := range ks {
			names = append(names, []byte(keyNames[x]))
		}
		return bytes.Join(names, bar), sval{K: 0, Ks: append([]int{}, ks...)}
	case 1:
		n := 1 + r.Intn(3)
		var ids [][]byte
		for i := 0; i < n; i++ {
			ids = append(ids, genAlpnID(r))
		}
		// the joined value must survive the quote trimming as it stands
		ids[0] = bytes.TrimLeft(ids[0], "\"")
		ids[n-1] = bytes.TrimRight(ids[n-1], "\"")
		if len(ids[0]) == 0 {
			ids[0] = []byte("h2")
		}
		if len(ids[n-1]) == 0 {
			ids[n-1] = []byte("h3")
		}
		return bytes.Join(ids, bar), sval{K: 1, Ids: ints2(ids)}
	case 2:
		return []byte{}, sval{K: 2}
	case 3:
		ports := []int{0, 1, 53, 80, 443, 8080, 65535, 255, 256, 65534, 10000}
		p := ports[r.Intn(len(ports))]
		if r.Chance(1, 4) {
			p = r.Intn(65536)
		}
		s := strconv.Itoa(p)
		if r.Chance(1, 8) {
			s = "00" + s
		}
		return []byte(s), sval{K: 3, P: p}
	case 4:
		n := 1 + r.Intn(3)
		var toks, as [][]byte
		for i := 0; i < n; i++ {
			a := r.Bytes(4, nil)
			if r.Chance(1, 5) {
				a = [][]byte{{0, 0, 0, 0}, {255, 255, 255, 255}, {127, 0, 0, 1}, {192, 0, 2, 1}}[r.Intn(4)]
			}
			as = append(as, a)
			toks = append(toks, text4(r, a))
		}
		return bytes.Join(toks, bar), sval{K: 4, A: ints2(as)}
	case 5:
		raw := r.Bytes(r.Intn(40), nil)
		if r.Chance(1, 10) {
			raw = r.Bytes(1, nil)
		}
		enc := []byte(base64.StdEncoding.EncodeToString(raw))
		if len(enc) == 0 {
			// an empty value needs the quotes to pass the emptiness test
			return []byte("\"\""), sval{K: 5, B: []int{}}
		}
		if r.Chance(1, 10) && len(enc) > 4 {
			// base64 Decode skips line breaks
			enc = append(append(append([]byte{}, enc[:4]...), '\n'), enc[4:]...)
		}
		return enc, sval{K: 5, B: hlib.Ints(raw)}
	default:
		n := 1 + r.Intn(3)
		var toks, as [][]byte
		for i := 0; i < n; i++ {
			a := genAddr6(r)
			as = append(as, a)
			toks = append(toks, text6(r, a))
		}
		return bytes.Join(toks, bar), sval{K: 6, A: ints2(as)}
	}
}

func genRec(r *hlib.Rng) *recIn {
	if !r.Chance(1, 3) {
		return nil
	}
	targets := []string{"svc.example.net", ".", "a.b", "x"}
	return &recIn{Type: 64 + r.Intn(2), TTL: []int{0, 60, 300, 86400}[r.Intn(4)],
		Prio: []int{0, 1, 2, 16, 65535}[r.Intn(5)], Target: targets[r.Intn(len(targets))], Wild: r.Chance(1, 4)}
}

func renderSeg(r *hlib.Rng, k int, v []byte) []byte {
	if k == 2 && len(v) == 0 && !r.Chance(1, 3) {
		return []byte(keyNames[k] + "=")
	}
	if k == 5 && len(v) == 2 && v[0] == '"' {
		return append([]byte(keyNames[k]+"="), v...)
	}
	return append([]byte(keyNames[k]+"="), quoteVariant(r, v)...)
}

// genValid: a list meant to be accepted.
func genValid(r *hlib.Rng, keys []int) input {
	var segs [][]byte
	decl := []sval{}
	for _, k := range keys {
		if k == 0 && len(keys) == 1 {
			continue
		}
		v, d := genValue(r, k, keys)
		segs = append(segs, renderSeg(r, k, v))
		decl = append(decl, d)
	}
	text := bytes.Join(segs, []byte(";"))
	class := "valid"
	switch r.Pick([]int{10, 2, 1}) {
	case 1:
		text = append(text, ';')
		class = "valid-trailing"
	case 2:
		// the list ends at the first empty segment: what follows is not part of it
		text = append(text, []byte(";;port=zz;foo")...)
		class = "valid-emptyseg"
	}
	return input{text: text, decl: &decl, rec: genRec(r), class: class}
}

func randKeys(r *hlib.Rng) []int {
	keys := []int{0, 1, 2, 3, 4, 5, 6}
	r.Shuffle(7, func(i, j int) { keys[i], keys[j] = keys[j], keys[i] })
	n := 1 + r.Intn(7)
	if r.Chance(1, 4) {
		n = 7
	}
	return keys[:n]
}

// genMandBad: a list whose mandatory parameter names a missing key, itself, or a key twice.
func genMandBad(r *hlib.Rng) input {
	keys := randKeys(r)
	has0 := false
	for _, k := range keys {
		if k == 0 {
			has0 = true
		}
	}
	if !has0 {
		keys = append(keys, 0)
		r.Shuffle(len(keys), func(i, j int) { keys[i], keys[j] = keys[j], keys[i] })
	}
	in := map[int]bool{}
	for _, k := range keys {
		in[k] = true
	}
	var segs [][]byte
	decl := []sval{}
	how := r.Intn(3)
	for _, k := range keys {
		if k != 0 {
			v, d := genValue(r, k, keys)
			segs = append(segs, renderSeg(r, k, v))
			decl = append(decl, d)
			continue
		}
		var ks []int
		for _, p := range keys {
			if p != 0 && r.Chance(1, 2) {
				ks = append(ks, p)
			}
		}
		switch how {
		case 0: // a key that is not in the list
			var missing []int
			for c := 1; c <= 6; c++ {
				if !in[c] {
					missing = append(missing, c)
				}
			}
			if len(missing) == 0 {
				ks = append(ks, 0)
			} else {
				ks = append(ks, missing[r.Intn(len(missing))])
			}
		case 1:
			ks = append(ks, 0)
		default:
			if len(ks) == 0 {
				ks = append(ks, 1+r.Intn(6))
			}
			ks = append(ks, ks[r.Intn(len(ks))])
		}
		r.Shuffle(len(ks), func(i, j int) { ks[i], ks[j] = ks[j], ks[i] })
		var names [][]byte
		for _, x := range ks {
			names = append(names, []byte(keyNames[x]))
		}
		segs = append(segs, renderSeg(r, 0, bytes.Join(names, []byte("|"))))
		decl = append(decl, sval{K: 0, Ks: ks})
	}
	return input{text: bytes.Join(segs, []byte(";")), decl: &decl, rec: genRec(r),
		class: []string{"mand-missing", "mand-self", "mand-repeat"}[how]}
}

// genDupKey: a parameter key occurs twice.
func genDupKey(r *hlib.Rng) input {
	keys := randKeys(r)
	keys = append(keys, keys[r.Intn(len(keys))])
	r.Shuffle(len(keys), func(i, j int) { keys[i], keys[j] = keys[j], keys[i] })
	var segs [][]byte
	decl := []sval{}
	for _, k := range keys {
		if k == 0 {
			continue
		}
		v, d := genValue(r, k, keys)
		segs = append(segs, renderSeg(r, k, v))
		decl = append(decl, d)
	}
	return input{text: bytes.Join(segs, []byte(";")), decl: &decl, rec: genRec(r), class: "dup-key"}
}

var badSegs = []string{
	"mandatory=", "alpn=", "ipv4hint=", "echconfig=", "ipv6hint=", "port=", "no-default-alpn=h2",
	"ipv4hint", "foo=bar", "port=1b", "ipv4hint=ab.cd.ef.fg", "IPv4Hint=1.2.3.4", "ipv4hint=face:b00c::",
	"echconfig=***bad***", "mandatory=foo|bar", "mandatory=ALPN|IPv4Hint", "ipv6hint=f:a:c:e:b:o:o:k",
	"ipv6hint=1.2.3.4", "port=65536", "port=99999999999999999999", "port=+80", "port=-1", "port=\"\"",
	"port=6553x6", "port=65536x", "port= 80", "ipv4hint=1.2.3.4|", "ipv4hint=|1.2.3.4", "ipv4hint=1.2.3",
	"ipv4hint=256.1.1.1", "ipv4hint=01.2.3.4", "ipv4hint=1.2.3.4|::1", "ipv6hint=::1|", "ipv6hint=1::2%eth0",
	"ipv6hint=::1|1.2.3.4", "ipv6hint=:", "ipv6hint=12345::", "echconfig=YQ", "echconfig=YQ=", "echconfig=Y*==",
	"no-default-alpn", "=x", "alpn", "alpn=|", "alpn=h2|", "alpn=|h2", "alpn=h2||h3", "alpn=\"\"",
	"mandatory=\"\"", "mandatory=|", "mandatory=alpn|", "mandatory=port|mandatory|foo", "mandatory=port|foo|mandatory",
	"mandatory=alpn|alpn|foo", "mandatory =alpn", "port=80=", "echconfig=\"", "no-default-alpn=\"", "no-default-alpn=\"\"\"x",
	"key7=x", "dohpath=/dns", "ech=YQ==", "alpn=" + strings.Repeat("a", 256), "alpn=h2|" + strings.Repeat("b", 258),
}

// genMalformed: mostly-valid list with one broken or unusual segment; no declared intent.
func genMalformed(r *hlib.Rng) input {
	keys := randKeys(r)
	var segs [][]byte
	for _, k := range keys {
		if k == 0 {
			continue
		}
		v, _ := genValue(r, k, keys)
		segs = append(segs, renderSeg(r, k, v))
	}
	bad := []byte(badSegs[r.Intn(len(badSegs))])
	if r.Chance(1, 5) {
		bad = r.Bytes(1+r.Intn(12), []byte("alpnort=;|\"h2 .:0123mandatoryipv46hint-"))
	}
	pos := r.Intn(len(segs) + 1)
	segs = append(segs[:pos], append([][]byte{bad}, segs[pos:]...)...)
	return input{text: bytes.Join(segs, []byte(";")), rec: genRec(r), class: "malformed"}
}

func fixedInputs() []input {
	texts := []string{
		"ipv6hint=::ffff:1.2.3.4", // F8
		"ipv6hint=0:0:0:0:0:ffff:102:304",
		"ipv6hint=2001:db8::1|::ffff:198.51.100.100;port=443",
		"ipv4hint=192.0.2.1|1.2.3.4", "ipv6hint=\"2001:db8::1|2001:db8::53:1\"", "mandatory=ipv4hint|alpn",
		"alpn=h2|h3-19", "port=53", "echconfig=\"dHJhZmZpYw==\"",
		"ipv4hint=192.0.2.1;mandatory=ipv4hint|alpn;alpn=h3-29|h2", "port=8080;no-default-alpn=",
		"no-default-alpn=h2;port=53;ipv4hint=1.2.3.4", "no-default-alpn=;echconfig=\"dHJhZmZpYw==\";port=x",
		"mandatory=echconfig;ipv4hint=facebook", "ipv4hint=1.2.3.4;ipv4hint=2.3.4.5", "mandatory=ipv4hint|alpn;alpn=h2",
		"port=8080,no-default-alpn=", "", ";", ";alpn=h2", "alpn=h2;;port=zzz", "alpn=h2;", "alpn==", "alpn=a\"b",
		"alpn=\"a\"|\"b\"", "mandatory=\"alpn\";alpn=\"\"\"h2\"\"\"", "ipv4hint=::ffff:1.2.3.4", "ipv6hint=::1.2.3.4",
		"port=080", "port=0", "port=65535", "port=65536", "echconfig=\"\"", "echconfig=YQ==", "echconfig=YR==",
		"echconfig=Y\nQ==", "no-default-alpn=\"\"", "mandatory=mandatory", "mandatory=alpn|alpn;alpn=h2",
		"mandatory=port;alpn=h2", "alpn=" + strings.Repeat("a", 255), "alpn=" + strings.Repeat("a", 256),
		"alpn=" + strings.Repeat("\x02", 258), "alpn=h2|", "alpn=\"\"", "alpn=|",
		"mandatory=alpn|no-default-alpn|port|ipv4hint|echconfig|ipv6hint;alpn=h2;no-default-alpn=;port=1;ipv4hint=1.1.1.1;echconfig=YQ==;ipv6hint=::1",
	}
	var res []input
	for i, t := range texts {
		in := input{text: []byte(t), class: "fixed"}
		if i%2 == 0 {
			in.rec = &recIn{Type: 65, TTL: 300, Prio: 1, Target: "svc.example.net"}
		}
		res = append(res, in)
	}
	return res
}

// hugeInputs: values at the 16-bit limit of the length field.
func hugeInputs() []input {
	id254 := strings.Repeat("k", 254)
	id255 := strings.Repeat("m", 255)
	return []input{
		{text: []byte("alpn=" + strings.Repeat(id254+"|", 256) + id254), class: "huge-65535"},        // 257*255 = 65535
		{text: []byte("port=1;alpn=" + strings.Repeat(id255+"|", 255) + id255), class: "huge-65536"}, // 256*256 = 65536
		{text: []byte("ipv6hint=" + strings.Repeat("::|", 4095) + "::;port=80"), class: "huge-65536"},
	}
}

func permutations(keys []int, f func([]int)) {
	var rec func(k int)
	a := append([]int{}, keys...)
	rec = func(k int) {
		if k == len(a) {
			f(append([]int{}, a...))
			return
		}
		for i := k; i < len(a); i++ {
			a[k], a[i] = a[i], a[k]
			rec(k + 1)
			a[k], a[i] = a[i], a[k]
		}
	}
	rec(0)
}

func run(a *hlib.Args, e *hlib.Emitter) error {
	if a.Replay != "" {
		cs, err := hlib.ReadReplay(a.Replay)
		if err != nil {
			return err
		}
		for _, m := range cs {
			var in input
			var text []int
			json.Unmarshal(m["text"], &text)
			json.Unmarshal(m["class"], &in.class)
			in.text = hlib.Unints(text)
			if raw, ok := m["decl"]; ok && string(raw) != "null" {
				d := []sval{}
				if json.Unmarshal(raw, &d) == nil {
					in.decl = &d
				}
			}
			if raw, ok := m["rec"]; ok && string(raw) != "null" {
				var ro recObs
				if json.Unmarshal(raw, &ro) == nil {
					ri := ro.recIn
					in.rec = &ri
				}
			}
			// a replay file holds one of the two kinds; both are re-emitted, the driver pairs by index
			var kind string
			json.Unmarshal(m["kind"], &kind)
			for _, c := range observe(in) {
				if c.Kind == kind {
					e.Emit(c)
				}
			}
		}
		return nil
	}
	for _, in := range fixedInputs() {
		runOne(in, e)
		in.class += "+stored"
		in.rec = nil
		runOne(in, e)
	}
	for _, in := range hugeInputs() {
		runOne(in, e)
	}
	// every order of the seven keys (thorough) / of every choice of up to three keys plus
	// the rotations of all seven (quick), with simple values
	r := hlib.NewRng(a.Seed, 18)
	if a.Tier == "thorough" {
		permutations([]int{0, 1, 2, 3, 4, 5, 6}, func(p []int) {
			in := genValid(r, p)
			in.class = "perm7"
			in.rec = nil
			runOne(in, e)
		})
	} else {
		for s := 0; s < 7; s++ {
			p := []int{}
			for i := 0; i < 7; i++ {
				p = append(p, (s+i)%7)
			}
			in := genValid(r, p)
			in.class = "perm7"
			runOne(in, e)
		}
	}
	for x := 0; x < 7; x++ {
		for y := 0; y < 7; y++ {
			for z := 0; z < 7; z++ {
				if x == y || y == z || x == z {
					continue
				}
				if a.Tier != "thorough" && (x+2*y+3*z)%3 != 0 {
					continue
				}
				in := genValid(r, []int{x, y, z})
				in.class = "perm3"
				in.rec = nil
				runOne(in, e)
			}
		}
	}
	stored := func(in input) input {
		if r.Intn(2) == 0 {
			in.class += "+stored"
		}
		return in
	}
	for i := 0; i < a.N; i++ {
		switch r.Pick([]int{10, 3, 2, 6}) {
		case 0:
			runOne(stored(genValid(r, randKeys(r))), e)
		case 1:
			runOne(stored(genMandBad(r)), e)
		case 2:
			runOne(stored(genDupKey(r)), e)
		default:
			runOne(stored(genMalformed(r)), e)
		}
	}
	return nil
}

func main() { hlib.Main(run) }
