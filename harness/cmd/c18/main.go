package main

import (
	"bytes"
	"fmt"
	"strings"

	"github.com/facebookincubator/dns/dnsrocks/dnsdata"
	"github.com/facebookincubator/dns/dnsrocks/dnsdata/svcb"
)

func main() {
	s := "ipv6hint=" + strings.Repeat("::|", 4095) + "::;port=80"
	var l svcb.ParamList
	err := l.FromText([]byte(s))
	var w bytes.Buffer
	l.ToWire(&w)
	fmt.Println(len(s), err, w.Len(), w.Bytes()[:8])
	c := new(dnsdata.Codec)
	mr, err := c.ConvertLn([]byte("Hexample.com,svc.example.net,300,,1,alpn=h2;port=443"))
	fmt.Println(mr, err)
	mr, err = c.ConvertLn([]byte("Hexample.com,.,300,,1," + s))
	fmt.Println(len(mr), err, len(mr[0].Value))
}
