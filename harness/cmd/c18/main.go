package main

import (
	"bytes"
	"fmt"

	"github.com/facebookincubator/dns/dnsrocks/dnsdata/svcb"
)

func try(s string) {
	defer func() {
		if r := recover(); r != nil {
			fmt.Printf("  PANIC %v\n", r)
		}
	}()
	var l svcb.ParamList
	err := l.FromText([]byte(s))
	show := s
	if len(show) > 60 {
		show = show[:60] + "..."
	}
	fmt.Printf("%q -> err=%v\n", show, err)
	if err != nil {
		return
	}
	var w bytes.Buffer
	l.ToWire(&w)
	wb := w.Bytes()
	if len(wb) > 40 {
		wb = wb[:40]
	}
	fmt.Printf("  wire(%d)=%v\n", w.Len(), wb)
	var t bytes.Buffer
	l.ToText(&t)
	tb := t.Bytes()
	if len(tb) > 80 {
		tb = tb[:80]
	}
	fmt.Printf("  text(%d)=%q\n", t.Len(), tb)
	var l2 svcb.ParamList
	err = l2.FromText(t.Bytes())
	var w2 bytes.Buffer
	if err == nil {
		l2.ToWire(&w2)
	}
	fmt.Printf("  reparse err=%v same=%v\n", err, bytes.Equal(w.Bytes(), w2.Bytes()))
}

func main() {
	try("alpn=h2|")
	try("alpn=\"\"")
	try("alpn=" + string(bytes.Repeat([]byte("a"), 256)))
	try("alpn=" + string(bytes.Repeat([]byte("a"), 300)))
	try("alpn=" + string(bytes.Repeat([]byte{2}, 258)))
	try("alpn=h2;;port=zzz")
	try("ipv6hint=::ffff:1.2.3.4")
	try("ipv4hint=::ffff:1.2.3.4")
	try("ipv4hint=1.2.3.4|")
	try("port=+80")
	try("port=080")
	try("port=65536")
	try("port=\"\"")
	try("echconfig=\"\"")
	try("echconfig=YQ==")
	try("echconfig=YQ")
	try("echconfig=YQ==\n")
	try("echconfig=Y\nQ==")
	try("echconfig=YR==")
	try("no-default-alpn=\"\"")
	try("no-default-alpn")
	try("=x")
	try("alpn==")
	try("alpn=a\"b")
	try("alpn=\"a\"|\"b\"")
	try("mandatory=\"alpn\";alpn=\"\"\"h2\"\"\"")
	try("ipv6hint=1::2%eth0")
	try("ipv6hint=0:0:0:0:0:ffff:102:304")
	try("ipv4hint=001.2.3.4")
	try("ipv6hint=::1.2.3.4")
	try("")
	try(";alpn=h2")
	try("mandatory=port|mandatory|foo")
	try("mandatory=alpn|alpn|foo;alpn=h2")
}
