package main

import (
	"fmt"

	spooky "github.com/dgryski/go-spooky"
)

func main() {
	var bad []int
	for n := 0; n < 600; n++ {
		b := make([]byte, n)
		for i := range b {
			b[i] = byte(i*7 + n)
		}
		h := spooky.New(0, 0)
		h.Write(b)
		if h.Sum32() != spooky.Hash32(b) {
			bad = append(bad, n)
		}
	}
	fmt.Println("lengths where streaming != one-shot:", bad)
	// writer pattern: Reset then Write
	h := spooky.New(0, 0)
	var bad2 []int
	for n := 0; n < 600; n++ {
		b := make([]byte, n)
		for i := range b {
			b[i] = byte(i*7 + n)
		}
		h.Reset()
		h.Write(b)
		if h.Sum32() != spooky.Hash32(b) {
			bad2 = append(bad2, n)
		}
	}
	fmt.Println("with a reused hasher (Reset):", bad2)
}
