package main

import (
	"fmt"
	"io"
	"log"
	"os"
	"time"
	"syscall"

	"github.com/facebookincubator/dns/dnsrocks/dnsdata/rdb"
	"verifharness/corelib"
	"verifharness/hlib"
)

func cpu() time.Duration {
	var ru syscall.Rusage
	syscall.Getrusage(syscall.RUSAGE_SELF, &ru)
	return time.Duration(ru.Utime.Nano() + ru.Stime.Nano())
}

func main() {
	scr := os.Args[1]
	os.Setenv("TMPDIR", scr)
	log.SetOutput(io.Discard)
	r := hlib.NewRng(1, uint64(101))
	g := corelib.Generate(r, "located", 1700000000)
	in := scr + "/t.in"
	os.WriteFile(in, corelib.FileText(g.Lines), 0644)
	for i := 0; i < 3; i++ {
		d := fmt.Sprintf("%s/r-%d", scr, i)
		os.MkdirAll(d, 0755)
		t, c := time.Now(), cpu()
		_, err := rdb.CompileToSpecificRDBVersion(in, d, rdb.CompilationOptions{NumCPU: 1, UseV2KeySyntax: true, UseBuilder: false})
		fmt.Println("rdb compile wall", time.Since(t), "cpu", cpu()-c, err)
		t, c = time.Now(), cpu()
		corelib.DumpRDB(d)
		fmt.Println("dump wall", time.Since(t), "cpu", cpu()-c)
		t, c = time.Now(), cpu()
		x, err := rdb.NewReader(d)
		fmt.Println("newreader wall", time.Since(t), "cpu", cpu()-c, err)
		t, c = time.Now(), cpu()
		x.Close()
		fmt.Println("close wall", time.Since(t), "cpu", cpu()-c)
	}
}
