// C06 harness: life cycle of storage backends behind db.DB / dnsserver.FBDNSDB.
//
// Every case is a history of operations (acquire/use/release of readers,
// reloads of every outcome, reload timeouts with late completion, shutdown)
// run against a REAL dnsserver.FBDNSDB whose served *db.DB wraps an
// instrumented fake backend (db.DBI).  The fake backends record every call in
// one shared event log and count calls after Close and second Close calls.
// After every operation the harness reports the new events, the error class,
// which backend is served, the refcounts of all wrappers it has seen and which
// backend every held reader pins.  Coq then runs the model on the same history
// (Run/C06.v model_ok) and checks the property on the observations (spec_ok).
package main

import (
	"bytes"
	"context"
	"encoding/json"
	"errors"
	"flag"
	"fmt"
	"net"
	"runtime"
	"strconv"
	"sync"
	"sync/atomic"
	"time"

	"github.com/coredns/coredns/plugin/pkg/dnstest"
	"github.com/miekg/dns"

	"github.com/facebookincubator/dns/dnsrocks/db"
	"github.com/facebookincubator/dns/dnsrocks/dnsserver/test"
	"github.com/facebookincubator/dns/dnsrocks/dnsserver"
	"github.com/facebookincubator/dns/dnsrocks/dnsserver/stats"

	"verifharness/hlib"
)

// operation codes of the event log (Spec/Handles.v)
const (
	evOpen = iota
	evNewContext
	evFinder
	evForEach
	evFreeContext
	evReload
	evReloadRet
	evClose
	evFind
	evFindMap
	evGetLocationByMap
	evGetStats
)

const reloadTimeout = 50 * time.Millisecond

// histories with operations attempted inside a reload hold the reload at a hook point for
// intrWait; their handlers get a long reload timeout so that this never turns into a timeout
const intrWait = 25 * time.Millisecond
const intrReloadTimeout = 3 * time.Second

var validationKey = []byte("valid")

// Every fake backend serves one tiny zone, enough for ServeDNSWithRCODE to build a
// cacheable authoritative answer: SOA, NS and TXT at the apex example. (rows in the layout
// db.ExtractRRFromRow reads: type, '=', ttl, 8 bytes, rdata in wire format).
var apexKey = append([]byte{0, 0}, packName("example.")...)

func packName(n string) []byte {
	b := make([]byte, 255)
	off, err := dns.PackDomainName(n, b, 0, nil, false)
	if err != nil {
		panic(err)
	}
	return b[:off]
}

func row(t uint16, rdata []byte) []byte {
	r := []byte{byte(t >> 8), byte(t), '=', 0, 0, 0, 60, 0, 0, 0, 0, 0, 0, 0, 0}
	return append(r, rdata...)
}

var apexRows = [][]byte{
	row(dns.TypeSOA, append(append(packName("ns.example."), packName("h.example.")...),
		0, 0, 0, 1, 0, 0, 14, 16, 0, 0, 3, 132, 0, 9, 58, 128, 0, 0, 0, 60)),
	row(dns.TypeNS, packName("ns.example.")),
	row(dns.TypeTXT, []byte{2, 'h', 'i'}),
}

// ---------------------------------------------------------------- instrumented backend

type world struct {
	mu       sync.Mutex
	events   [][2]int
	egid     []uint64 // goroutine that made the call, per event
	r        *runner  // the history that owns this world (hook points)
	trig     *int32   // race-rel: set to 1 when FreeContext is called on backend trigBk
	trigBk   int
	fastgid  bool // race-rel: only Close calls look up their goroutine (keeps the other calls short)
	nextID   int
	uac, dc  int
	probing  bool
	scripts  []*script // scripts for the next DBI.Reload calls, FIFO
	ownerGID uint64    // goroutine that runs the history
}

// script tells one DBI.Reload call what to do.
type script struct {
	cand    string        // "new" | "same" | "err"
	key     bool          // validation key present in the candidate
	block   chan struct{} // when non-nil: wait until closed (cand/key are set before)
	spin    time.Time     // when non-zero: busy-wait until then (race attempts)
	done    chan struct{} // closed when DBI.Reload is about to return
	started chan struct{} // when non-nil: closed as soon as DBI.Reload has been entered
	created *fakeDB       // the fresh backend, if any
}

type fakeCtx struct{}

func (*fakeCtx) Reset() {}

type fakeDB struct {
	w        *world
	id       int
	closed   int
	hasKey   bool
	closedCh chan struct{}
	closeGID uint64
}

func gid() uint64 {
	var buf [64]byte
	n := runtime.Stack(buf[:], false)
	f := bytes.Fields(buf[:n])
	if len(f) < 2 {
		return 0
	}
	g, _ := strconv.ParseUint(string(f[1]), 10, 64)
	return g
}

func (w *world) newBackend(key bool) *fakeDB {
	// caller holds w.mu
	f := &fakeDB{w: w, id: w.nextID, hasKey: key, closedCh: make(chan struct{})}
	w.nextID++
	w.events = append(w.events, [2]int{f.id, evOpen})
	w.egid = append(w.egid, gid())
	return f
}

// rec records one call; caller must NOT hold w.mu.
func (f *fakeDB) rec(op int) {
	f.w.mu.Lock()
	defer f.w.mu.Unlock()
	f.recLocked(op)
}

func (f *fakeDB) recLocked(op int) {
	if op == evClose {
		if f.closed > 0 {
			f.w.dc++
		}
	} else if f.closed > 0 {
		f.w.uac++
	}
	f.w.events = append(f.w.events, [2]int{f.id, op})
	g := uint64(0)
	if !f.w.fastgid || op == evClose {
		g = gid()
	}
	f.w.egid = append(f.w.egid, g)
}

func (f *fakeDB) NewContext() db.Context {
	f.w.mu.Lock()
	f.recLocked(evNewContext)
	trig := f.w.trig
	if trig != nil && f.w.trigBk != f.id {
		trig = nil
	}
	f.w.mu.Unlock()
	if trig != nil { // race-rel: the validation of the candidate has begun
		atomic.StoreInt32(trig, 1)
	}
	return &fakeCtx{}
}
func (f *fakeDB) FreeContext(db.Context) { f.rec(evFreeContext) }
func (f *fakeDB) Find(key []byte, c db.Context) ([]byte, error) {
	f.rec(evFind)
	return nil, errors.New("not found")
}
func (f *fakeDB) ForEach(key []byte, fn func(value []byte) error, c db.Context) error {
	f.w.mu.Lock()
	f.recLocked(evForEach)
	has := f.hasKey
	f.w.mu.Unlock()
	if has && bytes.Equal(key, validationKey) {
		return fn([]byte{1})
	}
	if bytes.Equal(key, apexKey) {
		for _, r := range apexRows {
			if err := fn(append([]byte{}, r...)); err != nil {
				return err
			}
		}
	}
	return nil
}
func (f *fakeDB) FindMap(domain, mtype []byte, c db.Context) ([]byte, error) {
	f.rec(evFindMap)
	return nil, nil
}
func (f *fakeDB) GetLocationByMap(ipnet *net.IPNet, mapID []byte, c db.Context) ([]byte, uint8, error) {
	f.rec(evGetLocationByMap)
	return nil, 0, nil
}
func (f *fakeDB) ClosestKeyFinder() db.ClosestKeyFinder { f.rec(evFinder); return nil }
func (f *fakeDB) GetStats() map[string]int64 {
	f.w.mu.Lock()
	defer f.w.mu.Unlock()
	if !f.w.probing { // probes of the harness are not calls of the code under test
		f.recLocked(evGetStats)
	}
	return map[string]int64{"id": int64(f.id)}
}
func (f *fakeDB) Close() error {
	g := gid()
	f.w.mu.Lock()
	f.recLocked(evClose)
	f.closed++
	first := f.closed == 1
	f.closeGID = g
	f.w.mu.Unlock()
	if first {
		close(f.closedCh)
	}
	if f.w.r != nil {
		f.w.r.fire("close", nil) // hook point: inside a backend's Close
	}
	return nil
}

func (f *fakeDB) Reload(path string) (db.DBI, error) {
	w := f.w
	w.mu.Lock()
	f.recLocked(evReload)
	var sc *script
	if len(w.scripts) > 0 {
		sc = w.scripts[0]
		w.scripts = w.scripts[1:]
	}
	w.mu.Unlock()
	if sc == nil {
		f.rec(evReloadRet)
		return nil, errors.New("unscripted reload")
	}
	if sc.started != nil {
		close(sc.started)
	}
	if w.r != nil {
		w.r.fire("dbireload", sc) // hook point: inside DBI.Reload of the served backend
	}
	if sc.block != nil {
		<-sc.block
	}
	if !sc.spin.IsZero() {
		if d := time.Until(sc.spin) - 2*time.Millisecond; d > 0 {
			time.Sleep(d)
		}
		for time.Now().Before(sc.spin) {
		}
	}
	defer close(sc.done)
	w.mu.Lock()
	defer w.mu.Unlock()
	switch sc.cand {
	case "new":
		nb := w.newBackend(sc.key)
		sc.created = nb
		f.recLocked(evReloadRet)
		return nb, nil
	case "same":
		f.hasKey = sc.key
		f.recLocked(evReloadRet)
		return f, nil
	default:
		f.recLocked(evReloadRet)
		return nil, errors.New("open error")
	}
}

// ---------------------------------------------------------------- histories

type gop struct {
	K   string `json:"k"`             // acq use rel reload tpub tfirst late shutdown race reloadx
	R   int    `json:"r,omitempty"`   // reader slot
	C   string `json:"c,omitempty"`   // new same err
	Key bool   `json:"key,omitempty"` // validation key present
	I   int    `json:"i,omitempty"`   // index of the pending reload
	Q   int    `json:"q,omitempty"`   // query: 0 = TXT at the apex (answer), 1 = A below it (name error)
	At  string `json:"at,omitempty"`  // reloadx: hook point locked | dbireload | close | done
	X   *gop   `json:"x,omitempty"`   // reloadx: operation attempted from another goroutine at that point
}

type stepOut struct {
	Op     gop      `json:"op"`
	Events [][2]int `json:"events"`
	Res    int      `json:"res"`
	Served int      `json:"served"`
	Refs   [][3]uint64 `json:"refs"` // backend id, refCount, destroyable
	Pins   [][2]int `json:"pins"` // slot, backend id
	Uac    int      `json:"uac"`
	Dc     int      `json:"dc"`
	// Partial: no quiescent moment existed between this operation and the next one (the next
	// one was waiting on a lock): only events, result and the counters were observed
	Partial bool `json:"partial,omitempty"`
}

type caseOut struct {
	Class string    `json:"class"`
	Gen   []gop     `json:"gen"`   // what was asked for (replay input)
	Guard bool      `json:"guard"` // the resolved history satisfies the guard of the theorems
	Init  [][2]int  `json:"init"`
	Steps []stepOut `json:"steps"`
	Note  string    `json:"note,omitempty"`
	Tmo   int       `json:"tmo,omitempty"` // ReloadTimeout of the handler in ms (0: the default)
	Mult  int       `json:"mult,omitempty"` // race-rel: iterations with exactly this observation
	Cache bool      `json:"cache,omitempty"` // the handler has its response cache enabled
}

// tracker is the harness' own view of which operations are enabled.
type tracker struct {
	held  map[int]bool
	shut  bool
	npend int
}

func newTracker() *tracker { return &tracker{held: map[int]bool{}} }

// ok says whether o satisfies the guard (wf_hist); weak drops the in-flight clause.
func (t *tracker) ok(o gop, weak bool) bool {
	switch o.K {
	case "acq":
		return !t.shut && !t.held[o.R]
	case "query":
		return !t.shut
	case "use", "rel":
		return t.held[o.R]
	case "reload", "race":
		if o.C == "new" && o.Key && !weak {
			return !t.shut && t.npend == 0
		}
		return !t.shut
	case "tpub", "tfirst":
		return !t.shut
	case "reloadx":
		if o.X == nil || !t.ok(gop{K: "reload", C: o.C, Key: o.Key}, weak) {
			return false
		}
		return t.ok(*o.X, weak) // a reload does not change what is enabled
	case "racerel":
		return o.X != nil && t.held[o.R] && t.ok(*o.X, weak)
	case "late":
		return o.I < t.npend
	case "shutdown":
		if weak {
			return !t.shut
		}
		return !t.shut && t.npend == 0
	}
	return false
}

func (t *tracker) apply(o gop) {
	switch o.K {
	case "acq":
		t.held[o.R] = true
	case "rel":
		delete(t.held, o.R)
	case "tfirst":
		t.npend++
	case "late":
		t.npend--
	case "shutdown":
		t.shut = true
	case "reloadx":
		t.apply(*o.X)
	case "racerel":
		delete(t.held, o.R)
		t.apply(*o.X)
	}
}

type heldReader struct {
	rd db.Reader
	bk int // backend it pins, read off the NewContext event of its acquisition
}

// intrusion: one operation attempted from another goroutine while a reload is held at a hook point.
type intrusion struct {
	at      string
	x       gop
	sc      *script // script of the reload that is intruded upon
	fired   bool
	done    chan struct{}
	inside  bool // the attempt returned while the reload was still held at the hook point
	gid     uint64
	rd      db.Reader
	res     int
	uac, dc int
	mark    int // reload attempted: length of the event log when it passed reload_locked (-1: never)
	xsc     *script
}

type runner struct {
	w       *world
	fb      *dnsserver.FBDNSDB
	known   []*db.DB
	readers map[int]*heldReader
	pending []*script
	nev     int
	out     caseOut
	retry   bool // an operation did not take the requested course (spurious timeout): run again
	imu     sync.Mutex
	intr    *intrusion
	abort   bool
}

var runners sync.Map // goroutine id -> *runner, for the process-wide yield hook

// yieldHook is installed with dnsserver.SetVerifYieldHook; the goroutine tells the history.
func yieldHook(_ context.Context, point string) {
	g := gid()
	v, ok := runners.Load(g)
	if !ok {
		return
	}
	r := v.(*runner)
	if g == r.w.ownerGID {
		switch point {
		case "reload_locked":
			r.fire("locked", nil)
		case "reload_done":
			r.fire("done", nil)
		}
		return
	}
	if point == "reload_locked" { // a reload attempted by the intruder got past the lock
		r.imu.Lock()
		if in := r.intr; in != nil && in.gid == g && in.mark < 0 {
			r.w.mu.Lock()
			in.mark = len(r.w.events)
			r.w.mu.Unlock()
		}
		r.imu.Unlock()
	}
}

// fire starts the pending intrusion if point is its hook point, and holds the caller (the
// reload) for at most intrWait or until the attempt has returned.
func (r *runner) fire(point string, sc *script) {
	r.imu.Lock()
	in := r.intr
	if in == nil || in.fired || in.at != point || (sc != nil && sc != in.sc) {
		r.imu.Unlock()
		return
	}
	in.fired = true
	r.imu.Unlock()
	started := make(chan struct{})
	go func() {
		in.gid = gid()
		runners.Store(in.gid, r)
		defer runners.Delete(in.gid)
		close(started)
		r.runX(in)
		r.w.mu.Lock()
		in.uac, in.dc = r.w.uac, r.w.dc
		r.w.mu.Unlock()
		close(in.done)
	}()
	<-started
	select {
	case <-in.done:
		in.inside = true
	case <-time.After(intrWait):
	}
}

// serve sends one query through ServeDNSWithRCODE of the handler under test.
func (r *runner) serve(q int) {
	req := new(dns.Msg)
	if q == 0 {
		req.SetQuestion("example.", dns.TypeTXT)
	} else {
		req.SetQuestion("www.example.", dns.TypeA)
	}
	rec := dnstest.NewRecorder(&test.ResponseWriterCustomRemote{RemoteIP: "10.1.2.3"})
	r.fb.ServeDNSWithRCODE(context.Background(), rec, req)
}

func (r *runner) runX(in *intrusion) {
	x := in.x
	switch x.K {
	case "acq":
		rd, err := r.fb.AcquireReader()
		if err == nil {
			in.rd = rd
		}
	case "use":
		r.readers[x.R].rd.ForEach(append([]byte{}, validationKey...), func([]byte) error { return nil })
	case "rel":
		r.readers[x.R].rd.Close()
	case "shutdown":
		r.fb.Close()
	case "query":
		r.serve(x.Q)
	case "reload":
		in.xsc = &script{cand: x.C, key: x.Key, done: make(chan struct{})}
		r.w.mu.Lock()
		r.w.scripts = append(r.w.scripts, in.xsc)
		r.w.mu.Unlock()
		in.res = errClass(r.fb.Reload(r.signal(x.C)))
	}
}

func (r *runner) takeEventsG() ([][2]int, []uint64, int) {
	r.w.mu.Lock()
	defer r.w.mu.Unlock()
	base := r.nev
	ev := append([][2]int{}, r.w.events[r.nev:]...)
	g := append([]uint64{}, r.w.egid[r.nev:]...)
	r.nev = len(r.w.events)
	return ev, g, base
}

func (r *runner) observePartial(o gop, res int, events [][2]int, uac, dc int) {
	r.out.Steps = append(r.out.Steps, stepOut{Op: o, Events: events, Res: res, Refs: [][3]uint64{}, Pins: [][2]int{},
		Uac: uac, Dc: dc, Partial: true})
}

func spinFor(d time.Duration) {
	if d <= 0 {
		return
	}
	for end := time.Now().Add(d); time.Now().Before(end); {
	}
}

// skewEst homes in on the start skew at which the two critical sections collide: the delay
// of the release is raised when the release came first and lowered when it came second.
type skewEst struct {
	mu   sync.Mutex
	d    float64 // ns
	step float64
}

var skewEsts = [2]*skewEst{{d: 3000, step: 400}, {d: 6000, step: 800}}

func (e *skewEst) get(jitter int) time.Duration {
	e.mu.Lock()
	defer e.mu.Unlock()
	d := e.d + float64(jitter)
	if d < 0 {
		d = 0
	}
	return time.Duration(d)
}

func (e *skewEst) feed(relFirst bool) {
	e.mu.Lock()
	defer e.mu.Unlock()
	if relFirst {
		e.d += e.step
	} else {
		e.d -= e.step
	}
	if e.d < 0 {
		e.d = 0
	}
	if e.d > 200000 {
		e.d = 200000
	}
	if e.step > 10 {
		e.step *= 0.97
	}
}

// doRaceRel: Reader.Close of the reader in slot o.R and the operation o.X (a reload that
// retires the reader's backend, or shutdown) run freely in two goroutines.  The release is
// started by a spinning flag: for a reload when the validation of its candidate begins (a few
// backend calls before f.Destroy()), for shutdown together with it; then it waits for a
// start skew that follows the observed outcomes (skewEst) plus the jitter o.I (ns), so that
// the sweep concentrates where the two DB.l critical sections meet.  Nothing is forced: the
// resolved history is read off the events.  The two critical sections (Destroy, and the
// locked tail of DataReader.Close) are ordered by who had to close the backend: the one
// that came second.  Events are attributed to the two operations by goroutine.
func (r *runner) doRaceRel(o gop) {
	x := *o.X
	h := r.readers[o.R]
	var xsc *script
	var goA, goB, ready int32
	est := skewEsts[1]
	r.w.mu.Lock()
	r.w.fastgid = true
	r.w.mu.Unlock()
	if x.K == "reload" {
		est = skewEsts[0]
		xsc = &script{cand: x.C, key: x.Key, done: make(chan struct{})}
		r.w.mu.Lock()
		r.w.scripts = append(r.w.scripts, xsc)
		r.w.trig, r.w.trigBk = &goA, r.w.nextID
		r.w.mu.Unlock()
	}
	dA := est.get(o.I)
	var gidA uint64
	resX := 0
	doneA, doneB := make(chan struct{}), make(chan struct{})
	go func() {
		gidA = gid()
		atomic.AddInt32(&ready, 1)
		for atomic.LoadInt32(&goA) == 0 {
		}
		spinFor(dA)
		h.rd.Close()
		close(doneA)
	}()
	go func() {
		atomic.AddInt32(&ready, 1)
		for atomic.LoadInt32(&goB) == 0 {
		}
		switch x.K {
		case "reload":
			resX = errClass(r.fb.Reload(r.signal(x.C)))
		case "shutdown":
			r.fb.Close()
		}
		atomic.StoreInt32(&goA, 1) // in case the trigger was never reached
		close(doneB)
	}()
	for atomic.LoadInt32(&ready) < 2 {
		runtime.Gosched()
	}
	if x.K != "reload" {
		atomic.StoreInt32(&goA, 1)
	}
	atomic.StoreInt32(&goB, 1)
	<-doneA
	<-doneB
	r.w.mu.Lock()
	r.w.trig = nil
	r.w.fastgid = false
	r.w.mu.Unlock()
	if xsc != nil {
		waitCh(xsc.done, 2*time.Second)
		if resX != expectedRes(x) {
			r.retry = true
		}
	}
	delete(r.readers, o.R)
	evs, gids, _ := r.takeEventsG()
	re, xe := [][2]int{}, [][2]int{}
	closer := uint64(0)
	for i := range evs {
		// the release makes two kinds of calls, both on the backend it pins: FreeContext (the
		// other operation never frees a context of that backend) and possibly Close (by goroutine)
		if evs[i][0] == h.bk && (evs[i][1] == evFreeContext || (evs[i][1] == evClose && gids[i] == gidA)) {
			re = append(re, evs[i])
		} else {
			xe = append(xe, evs[i])
		}
		if evs[i][0] == h.bk && evs[i][1] == evClose && closer == 0 {
			closer = gids[i]
		}
	}
	r.w.mu.Lock()
	uac, dc := r.w.uac, r.w.dc
	r.w.mu.Unlock()
	relOp := gop{K: "rel", R: o.R}
	est.feed(closer != gidA)
	r.out.Note += fmt.Sprintf("skew %dns;", dA.Nanoseconds())
	if closer == gidA { // the release came second: it found the wrapper destroyable
		r.observePartial(x, resX, xe, uac, dc)
		r.observe(relOp, 0, re)
	} else {
		r.observePartial(relOp, 0, re, uac, dc)
		r.observe(x, resX, xe)
	}
}

// doReloadX: a reload during which x is attempted from another goroutine at a hook point.
// What is emitted is the resolved history: the two operations in the order in which their
// calls on the backends happened.
func (r *runner) doReloadX(o gop) {
	x := *o.X
	ro := gop{K: "reload", C: o.C, Key: o.Key}
	sc := &script{cand: o.C, key: o.Key, done: make(chan struct{})}
	r.w.mu.Lock()
	r.w.scripts = append(r.w.scripts, sc)
	r.w.mu.Unlock()
	in := &intrusion{at: o.At, x: x, sc: sc, done: make(chan struct{}), mark: -1}
	r.imu.Lock()
	r.intr = in
	r.imu.Unlock()
	res := errClass(r.fb.Reload(r.signal(o.C)))
	r.w.mu.Lock()
	ruac, rdc := r.w.uac, r.w.dc
	r.w.mu.Unlock()
	waitCh(sc.done, 2*time.Second)
	if res != expectedRes(ro) {
		r.retry = true
		if sc.created != nil {
			waitCh(sc.created.closedCh, 2*time.Second)
		}
	}
	r.imu.Lock()
	fired := in.fired
	in.fired = true
	r.imu.Unlock()
	if !fired { // the hook point was not passed (no Close, reload not successful): plain sequence
		r.imu.Lock()
		r.intr = nil
		r.imu.Unlock()
		r.observe(ro, res, r.takeEvents())
		r.do(x)
		return
	}
	if !waitCh(in.done, 10*time.Second) {
		r.out.Note += "attempted " + x.K + " never returned;"
		r.abort = true
		r.observe(ro, res, r.takeEvents())
		return
	}
	if in.xsc != nil {
		waitCh(in.xsc.done, 2*time.Second)
		if in.res != expectedRes(x) {
			r.retry = true
		}
	}
	r.imu.Lock()
	r.intr = nil
	r.imu.Unlock()
	evs, gids, base := r.takeEventsG()
	re, xe := [][2]int{}, [][2]int{}
	minX, maxR := -1, -1
	for i := range evs {
		isX := gids[i] == in.gid
		if x.K == "reload" {
			isX = in.mark >= 0 && base+i >= in.mark
		}
		if isX {
			xe = append(xe, evs[i])
			if minX < 0 {
				minX = i
			}
		} else {
			re = append(re, evs[i])
			maxR = i
		}
	}
	// order: by the calls on the backends; an attempt that made no call is placed by whether
	// it had returned while the reload was still held at the hook point
	after := !in.inside
	if len(xe) > 0 {
		after = minX > maxR
	}
	switch x.K {
	case "acq":
		bk := -1
		for _, e := range xe {
			if e[1] == evNewContext {
				bk = e[0]
				break
			}
		}
		if in.rd != nil {
			r.readers[x.R] = &heldReader{rd: in.rd, bk: bk}
		}
	case "rel":
		delete(r.readers, x.R)
	}
	if after {
		r.observePartial(ro, res, re, ruac, rdc)
		r.observe(x, in.res, xe)
	} else {
		r.observePartial(x, in.res, xe, in.uac, in.dc)
		r.observe(ro, res, re)
	}
}

func (r *runner) probe(d *db.DB) int {
	r.w.mu.Lock()
	r.w.probing = true
	r.w.mu.Unlock()
	id := int(d.GetStats()["id"])
	r.w.mu.Lock()
	r.w.probing = false
	r.w.mu.Unlock()
	return id
}

func (r *runner) takeEvents() [][2]int {
	r.w.mu.Lock()
	defer r.w.mu.Unlock()
	ev := append([][2]int{}, r.w.events[r.nev:]...)
	r.nev = len(r.w.events)
	return ev
}

func (r *runner) observe(o gop, res int, events [][2]int) {
	cur := r.fb.DBForVerif()
	seen := false
	for _, k := range r.known {
		if k == cur {
			seen = true
		}
	}
	if !seen {
		r.known = append(r.known, cur)
	}
	st := stepOut{Op: o, Events: events, Res: res, Served: r.probe(cur), Refs: [][3]uint64{}, Pins: [][2]int{}}
	for _, k := range r.known {
		rc, d := k.RefCountForVerif()
		di := uint64(0)
		if d {
			di = 1
		}
		st.Refs = append(st.Refs, [3]uint64{uint64(r.probe(k)), rc, di})
	}
	for slot := 0; slot < 64; slot++ {
		if h, ok := r.readers[slot]; ok {
			st.Pins = append(st.Pins, [2]int{slot, h.bk})
		}
	}
	r.w.mu.Lock()
	st.Uac, st.Dc = r.w.uac, r.w.dc
	r.w.mu.Unlock()
	r.out.Steps = append(r.out.Steps, st)
}

func errClass(err error) int {
	switch {
	case err == nil:
		return 0
	case errors.Is(err, db.ErrReloadTimeout):
		return 3
	case errors.Is(err, db.ErrValidationKeyNotFound):
		return 2
	default:
		return 1
	}
}

func (r *runner) signal(c string) dnsserver.ReloadSignal {
	if c == "same" {
		return *dnsserver.NewPartialReloadSignal()
	}
	return *dnsserver.NewFullReloadSignal("/nonexistent/verif-c06/next")
}

func waitCh(ch chan struct{}, d time.Duration) bool {
	select {
	case <-ch:
		return true
	case <-time.After(d):
		return false
	}
}

func expectedRes(o gop) int {
	switch {
	case o.C == "err":
		return 1
	case !o.Key:
		return 2
	}
	return 0
}

func (r *runner) do(o gop) {
	switch o.K {
	case "acq":
		rd, err := r.fb.AcquireReader()
		if err != nil {
			r.out.Note += "acquire failed: " + err.Error() + ";"
			return
		}
		ev := r.takeEvents()
		bk := -1
		for _, e := range ev {
			if e[1] == evNewContext {
				bk = e[0]
				break
			}
		}
		if bk < 0 {
			bk = r.probe(r.fb.DBForVerif())
		}
		r.readers[o.R] = &heldReader{rd: rd, bk: bk}
		r.observe(o, 0, ev)
	case "query":
		r.serve(o.Q)
		r.observe(o, 0, r.takeEvents())
	case "reloadx":
		r.doReloadX(o)
	case "racerel":
		r.doRaceRel(o)
	case "use":
		r.readers[o.R].rd.ForEach(append([]byte{}, validationKey...), func([]byte) error { return nil })
		r.observe(o, 0, r.takeEvents())
	case "rel":
		r.readers[o.R].rd.Close()
		delete(r.readers, o.R)
		r.observe(o, 0, r.takeEvents())
	case "shutdown":
		r.fb.Close()
		r.observe(o, 0, r.takeEvents())
	case "reload":
		sc := &script{cand: o.C, key: o.Key, done: make(chan struct{})}
		r.w.mu.Lock()
		r.w.scripts = append(r.w.scripts, sc)
		r.w.mu.Unlock()
		res := errClass(r.fb.Reload(r.signal(o.C)))
		waitCh(sc.done, 2*time.Second)
		if res != expectedRes(o) {
			// the goroutine was not scheduled within the timeout: not the requested course
			r.retry = true
			if sc.created != nil {
				waitCh(sc.created.closedCh, 2*time.Second)
			}
		}
		r.observe(o, res, r.takeEvents())
	case "tfirst":
		sc := &script{block: make(chan struct{}), done: make(chan struct{}), started: make(chan struct{})}
		r.w.mu.Lock()
		r.w.scripts = append(r.w.scripts, sc)
		r.w.mu.Unlock()
		res := errClass(r.fb.Reload(r.signal("same")))
		// on a loaded machine the reload goroutine may not even have called DBI.Reload when
		// its caller times out; the call belongs to this step, so wait until it has been made
		waitCh(sc.started, 5*time.Second)
		r.pending = append(r.pending, sc)
		r.observe(o, res, r.takeEvents())
	case "late":
		sc := r.pending[o.I]
		r.pending = append(append([]*script{}, r.pending[:o.I]...), r.pending[o.I+1:]...)
		sc.cand, sc.key = o.C, o.Key
		close(sc.block)
		waitCh(sc.done, 2*time.Second)
		if sc.created != nil {
			// the reload goroutine must close the late candidate; give it time to do so
			waitCh(sc.created.closedCh, 2*time.Second)
		} else {
			time.Sleep(200 * time.Microsecond)
		}
		r.observe(o, 0, r.takeEvents())
	case "race":
		// DBI.Reload returns at about the moment the timeout fires; which of the three
		// orders happened is read off the result and off the goroutine that closed the candidate
		sc := &script{cand: o.C, key: o.Key, done: make(chan struct{}),
			spin: time.Now().Add(reloadTimeout + time.Duration(o.I)*time.Microsecond)}
		r.w.mu.Lock()
		r.w.scripts = append(r.w.scripts, sc)
		r.w.mu.Unlock()
		res := errClass(r.fb.Reload(r.signal(o.C)))
		waitCh(sc.done, 2*time.Second)
		if res == 3 && sc.created != nil {
			waitCh(sc.created.closedCh, 2*time.Second)
		}
		time.Sleep(200 * time.Microsecond)
		ev := r.takeEvents()
		switch {
		case res != 3: // goroutine first, main validated
			r.observe(gop{K: "reload", C: o.C, Key: o.Key}, res, ev)
		case sc.created != nil && sc.created.closeGID == r.w.ownerGID: // published, then main timed out and closed it
			r.observe(gop{K: "tpub", C: o.C, Key: o.Key}, res, ev)
		default: // main timed out first (or nothing tells the two orders apart)
			cut := 1
			if len(ev) < 1 {
				cut = 0
			}
			r.observe(gop{K: "tfirst"}, res, ev[:cut])
			r.observe(gop{K: "late", I: len(r.pending), C: o.C, Key: o.Key}, 0, ev[cut:])
		}
	}
}

func runHistory(class string, gen []gop, tmoMs int, cache bool) caseOut {
	var out caseOut
	tmo := reloadTimeout
	if tmoMs > 0 {
		tmo = time.Duration(tmoMs) * time.Millisecond
	}
	me := gid()
	defer runners.Delete(me)
	for attempt := 0; attempt < 6; attempt++ {
		w := &world{ownerGID: me}
		w.mu.Lock()
		b0 := w.newBackend(true)
		w.mu.Unlock()
		fb, err := dnsserver.NewFBDNSDBBasic(dnsserver.HandlerConfig{},
			dnsserver.DBConfig{Path: "/nonexistent/verif-c06/db", Driver: "fake", ReloadTimeout: tmo,
				ValidationKey: append([]byte{}, validationKey...)},
			dnsserver.CacheConfig{Enabled: cache, LRUSize: 16}, &dnsserver.DummyLogger{}, &stats.DummyStats{})
		if err != nil {
			panic(err)
		}
		d0 := db.NewDBForVerif(b0)
		fb.SetDBForVerif(d0)
		r := &runner{w: w, fb: fb, known: []*db.DB{d0}, readers: map[int]*heldReader{}}
		w.r = r
		runners.Store(me, r)
		r.out = caseOut{Class: class, Gen: gen, Steps: []stepOut{}, Tmo: tmoMs, Cache: cache}
		r.out.Init = r.takeEvents()
		t := newTracker()
		for _, o := range gen {
			if r.abort {
				break
			}
			if !t.ok(o, true) { // never run what the code cannot meaningfully do (unheld slot etc.)
				r.out.Note += "skipped " + o.K + ";"
				continue
			}
			r.do(o)
			if o.K != "race" {
				t.apply(o)
			}
		}
		// release what is still blocked so that no goroutine outlives the case
		for _, sc := range r.pending {
			sc.cand = "err"
			close(sc.block)
			waitCh(sc.done, 2*time.Second)
		}
		// guard of the resolved history
		g := newTracker()
		r.out.Guard = true
		for _, st := range r.out.Steps {
			if !g.ok(st.Op, false) {
				r.out.Guard = false
			}
			g.apply(st.Op)
		}
		out = r.out
		if !r.retry {
			break
		}
		out.Note += fmt.Sprintf("retried %d;", attempt+1)
	}
	return out
}

// ---------------------------------------------------------------- generators

var cands = []gop{
	{K: "reload", C: "new", Key: true}, {K: "reload", C: "same", Key: true}, {K: "reload", C: "err"},
	{K: "reload", C: "new", Key: false}, {K: "reload", C: "same", Key: false},
}

func genRandom(r *hlib.Rng, maxLen int, slots int) []gop {
	n := 3 + r.Intn(maxLen-2)
	t := newTracker()
	var h []gop
	for len(h) < n {
		var o gop
		switch r.Pick([]int{5, 5, 4, 9, 2, 4, 1, 6}) {
		case 7:
			o = gop{K: "query", Q: r.Pick([]int{4, 1})}
		case 0:
			o = gop{K: "acq", R: r.Intn(slots)}
		case 1:
			o = gop{K: "use", R: r.Intn(slots)}
		case 2:
			o = gop{K: "rel", R: r.Intn(slots)}
		case 3:
			o = cands[r.Pick([]int{4, 2, 1, 2, 2})]
		case 4:
			if t.npend >= 2 {
				continue
			}
			o = gop{K: "tfirst"}
		case 5:
			if t.npend == 0 {
				continue
			}
			o = gop{K: "late", I: r.Intn(t.npend), C: []string{"new", "same", "err"}[r.Intn(3)], Key: r.Chance(1, 2)}
		case 6:
			if len(h) < n/2 {
				continue
			}
			o = gop{K: "shutdown"}
		}
		if !t.ok(o, false) {
			continue
		}
		t.apply(o)
		h = append(h, o)
		if t.shut && len(t.held) == 0 && t.npend == 0 {
			break
		}
	}
	if r.Chance(1, 2) { // drain to a quiescent state
		for t.npend > 0 {
			o := gop{K: "late", I: 0, C: []string{"new", "same", "err"}[r.Intn(3)], Key: true}
			t.apply(o)
			h = append(h, o)
		}
		for s := 0; s < slots; s++ {
			if t.held[s] {
				o := gop{K: "rel", R: s}
				t.apply(o)
				h = append(h, o)
			}
		}
		if !t.shut && r.Chance(1, 2) {
			h = append(h, gop{K: "shutdown"})
		}
	}
	return h
}

func alphabet(slots int) []gop {
	var a []gop
	for s := 0; s < slots; s++ {
		a = append(a, gop{K: "acq", R: s}, gop{K: "use", R: s}, gop{K: "rel", R: s})
	}
	a = append(a, cands...)
	a = append(a, gop{K: "query"})
	a = append(a, gop{K: "tfirst"}, gop{K: "late", C: "new", Key: true}, gop{K: "late", C: "same", Key: true},
		gop{K: "late", C: "err"}, gop{K: "shutdown"})
	return a
}

// enumerate all guard-satisfying histories of exactly the given depth (prefixes are
// covered by the observations after every step of the longer ones)
func enumerate(depth, slots int, emit func([]gop)) {
	a := alphabet(slots)
	var rec func(h []gop, t *tracker)
	rec = func(h []gop, t *tracker) {
		if len(h) == depth {
			emit(append([]gop{}, h...))
			return
		}
		ext := false
		for _, o := range a {
			if !t.ok(o, false) {
				continue
			}
			ext = true
			t2 := &tracker{held: map[int]bool{}, shut: t.shut, npend: t.npend}
			for k := range t.held {
				t2.held[k] = true
			}
			t2.apply(o)
			rec(append(h, o), t2)
		}
		if !ext && len(h) > 0 {
			emit(append([]gop{}, h...))
		}
	}
	rec(nil, newTracker())
}

type job struct {
	class string
	gen   []gop
	tmo   int
	cache bool
}

func runAll(jobs []job, e *hlib.Emitter, par int) {
	res := make([]caseOut, len(jobs))
	var wg sync.WaitGroup
	sem := make(chan struct{}, par)
	for i := range jobs {
		wg.Add(1)
		sem <- struct{}{}
		go func(i int) {
			defer wg.Done()
			defer func() { <-sem }()
			res[i] = runHistory(jobs[i].class, jobs[i].gen, jobs[i].tmo, jobs[i].cache)
		}(i)
	}
	wg.Wait()
	for i := range res {
		e.Emit(res[i])
	}
}

// runRaceRel runs the free-running release races and emits every DISTINCT observation once
// (identical observations are identical Coq cases; Mult counts them).  The start skew and
// the note are not part of an observation.
func runRaceRel(jobs []job, e *hlib.Emitter) {
	res := make([]caseOut, len(jobs))
	var wg sync.WaitGroup
	sem := make(chan struct{}, 6)
	for i := range jobs {
		wg.Add(1)
		sem <- struct{}{}
		go func(i int) {
			defer wg.Done()
			defer func() { <-sem }()
			res[i] = runHistory(jobs[i].class, jobs[i].gen, jobs[i].tmo, jobs[i].cache)
		}(i)
	}
	wg.Wait()
	seen := map[string]int{}
	var order []int
	for i := range res {
		c := res[i]
		c.Note = ""
		g := make([]gop, len(c.Gen))
		copy(g, c.Gen)
		for k := range g {
			if g[k].K == "racerel" {
				g[k].I = 0
			}
		}
		c.Gen = g
		b, _ := json.Marshal(c)
		if j, ok := seen[string(b)]; ok {
			res[j].Mult++
			continue
		}
		seen[string(b)] = i
		res[i].Mult = 1
		order = append(order, i)
	}
	for _, i := range order {
		res[i].Note += "free-running race: a replay runs the race again (many times) and may not reproduce; the observed events are in steps;"
		e.Emit(res[i])
	}
}

func replayRaceRel(gen []gop) caseOut {
	const rounds, per = 12, 1000
	rng := hlib.NewRng(1, 9)
	var first *caseOut
	for round := 0; round < rounds; round++ {
		res := make([]caseOut, per)
		var wg sync.WaitGroup
		sem := make(chan struct{}, 6)
		for i := 0; i < per; i++ {
			g := make([]gop, len(gen))
			copy(g, gen)
			for k := range g {
				if g[k].K == "racerel" {
					g[k].I = rng.Intn(241) - 120
				}
			}
			wg.Add(1)
			sem <- struct{}{}
			go func(i int, g []gop) {
				defer wg.Done()
				defer func() { <-sem }()
				res[i] = runHistory("race-rel", g, 0, false)
			}(i, g)
		}
		wg.Wait()
		for i := range res {
			if first == nil {
				c := res[i]
				first = &c
			}
			if n := len(res[i].Steps); n > 0 && (res[i].Steps[n-1].Uac > 0 || res[i].Steps[n-1].Dc > 0) {
				res[i].Note += fmt.Sprintf("reproduced in replay iteration %d;", round*per+i)
				return res[i]
			}
		}
	}
	first.Note += fmt.Sprintf("not reproduced in %d replay iterations;", rounds*per)
	return *first
}

func run(a *hlib.Args, e *hlib.Emitter) error {
	if a.Scratch != "" { // glog output of the code under test goes to files in the scratch directory
		flag.Set("logtostderr", "false")
		flag.Set("log_dir", a.Scratch)
	}
	if a.Replay != "" {
		cs, err := hlib.ReadReplay(a.Replay)
		if err != nil {
			return err
		}
		var jobs []job
		for _, m := range cs {
			var class string
			var gen []gop
			var tmo int
			var cache bool
			json.Unmarshal(m["class"], &class)
			json.Unmarshal(m["tmo"], &tmo)
			json.Unmarshal(m["cache"], &cache)
			if err := json.Unmarshal(m["gen"], &gen); err != nil {
				return err
			}
			if class == "race-rel" {
				// a free-running race cannot be replayed step by step: run it again, many times,
				// and report the first iteration in which a backend saw a call after Close or a
				// second Close (otherwise the first iteration)
				e.Emit(replayRaceRel(gen))
				continue
			}
			jobs = append(jobs, job{class, gen, tmo, cache})
		}
		runAll(jobs, e, 4)
		return nil
	}
	var jobs []job
	// the in-flight finding F28 (outside the guard of the theorems): three fixed witnesses
	inflight := []job{
		{"inflight", []gop{{K: "tfirst"}, {K: "reload", C: "new", Key: true}, {K: "late", C: "err"}}, 0, false},
		{"inflight", []gop{{K: "acq", R: 0}, {K: "tfirst"}, {K: "reload", C: "new", Key: true}, {K: "rel", R: 0}, {K: "late", C: "same", Key: true}}, 0, false},
		{"inflight", []gop{{K: "tfirst"}, {K: "shutdown"}, {K: "late", C: "new", Key: true}}, 0, false}}
	if a.Extra == "inflight" {
		runAll(inflight, e, 4)
		return nil
	}
	if a.Extra == "racerel" { // only the free-running release races
		runRaceRel(raceRelJobs(hlib.NewRng(a.Seed, 8), a.N), e)
		return nil
	}
	if a.Extra == "intr" { // only the histories with operations attempted inside a reload
		jobs = intrusionJobs(hlib.NewRng(a.Seed, 7), a.N)
		runAll(jobs, e, 16)
		return nil
	}
	jobs = append(jobs, inflight...)
	depth, slots := 2, 3
	if a.Tier == "thorough" {
		depth, slots = 4, 2
	}
	enumerate(depth, slots, func(h []gop) { jobs = append(jobs, job{fmt.Sprintf("exh%d", depth), h, 0, true}) })
	r := hlib.NewRng(a.Seed, 6)
	nrace := a.N / 12
	nintr := a.N / 8
	for i := 0; i < a.N-nrace-nintr; i++ {
		jobs = append(jobs, job{"random", genRandom(r, 25, 3), 0, r.Chance(2, 3)})
	}
	runAll(jobs, e, 24)
	runAll(intrusionJobs(hlib.NewRng(a.Seed, 7), nintr), e, 16)
	jobs = nil
	for i := 0; i < nrace; i++ {
		// a short random prefix, then a reload whose backend returns right at the timeout
		h := genRandom(r, 8, 3)
		t := newTracker()
		var pre []gop
		for _, o := range h {
			if o.K == "shutdown" || o.K == "tfirst" || o.K == "late" {
				continue
			}
			pre = append(pre, o)
			t.apply(o)
		}
		pre = append(pre, gop{K: "race", C: "new", Key: r.Chance(2, 3), I: r.Intn(800) - 200})
		for s := 0; s < 3; s++ {
			if t.held[s] {
				pre = append(pre, gop{K: "rel", R: s})
			}
		}
		jobs = append(jobs, job{"race", pre, 0, r.Chance(1, 2)})
	}
	runAll(jobs, e, 3) // the race attempts busy-wait: keep them away from each other
	nrr := 30 * a.N
	if a.Tier == "thorough" {
		nrr = 8 * a.N
	}
	runRaceRel(raceRelJobs(hlib.NewRng(a.Seed, 8), nrr), e)
	return nil
}

// raceRelJobs: a reader is held on the served backend; its release and the operation that
// retires that backend (reload to a new backend, or shutdown) start together and run freely.
func raceRelJobs(r *hlib.Rng, n int) []job {
	var jobs []job
	for i := 0; i < n; i++ {
		var h []gop
		switch r.Pick([]int{5, 2, 2}) {
		case 0:
			h = []gop{{K: "acq", R: 0}}
		case 1:
			h = []gop{{K: "reload", C: "new", Key: true}, {K: "acq", R: 0}}
		default:
			h = []gop{{K: "acq", R: 0}, {K: "acq", R: 1}, {K: "use", R: 0}, {K: "rel", R: 1}}
		}
		x := gop{K: "reload", C: "new", Key: true}
		if r.Chance(1, 4) {
			x = gop{K: "shutdown"}
		}
		skew := r.Intn(241) - 120 // jitter in ns around the adaptive start skew
		h = append(h, gop{K: "racerel", R: 0, X: &x, I: skew})
		jobs = append(jobs, job{"race-rel", h, 0, false})
	}
	return jobs
}

// intrusionJobs: histories in which an operation is attempted from another goroutine while a
// reload is held inside DBI.Reload, inside a backend's Close, or at the reload_locked /
// reload_done yield points.  acquire, shutdown and a second reload must wait for reloadMu;
// use and release of a held reader need no lock and complete on the spot.
func intrusionJobs(r *hlib.Rng, nrandom int) []job {
	tmo := int(intrReloadTimeout / time.Millisecond)
	var jobs []job
	ats := []string{"locked", "dbireload", "close", "done"}
	for _, at := range ats {
		for ci, c := range cands {
			xs := []gop{{K: "acq", R: 0}, {K: "shutdown"}, {K: "reload", C: "new", Key: true}, {K: "reload", C: "same", Key: true}, {K: "query"}}
			for _, x := range xs {
				x := x
				h := []gop{{K: "reloadx", C: c.C, Key: c.Key, At: at, X: &x}}
				if x.K == "acq" {
					h = append(h, gop{K: "use", R: 0}, gop{K: "rel", R: 0})
				}
				if x.K == "query" { // asked before (the attempt may be a cache hit) and again afterwards
					h = append([]gop{{K: "query"}}, h...)
					h = append(h, gop{K: "query"}, gop{K: "reload", C: "new", Key: true})
				}
				jobs = append(jobs, job{"intr-exh", h, tmo, true})
				if ci != 0 {
					continue
				}
				// the same with a reader held on the old backend
				h2 := append([]gop{{K: "acq", R: 1}}, h...)
				h2 = append(h2, gop{K: "use", R: 1}, gop{K: "rel", R: 1})
				jobs = append(jobs, job{"intr-exh", h2, tmo, true})
			}
			if ci == 0 {
				for _, x := range []gop{{K: "use", R: 1}, {K: "rel", R: 1}} {
					x := x
					h := []gop{{K: "acq", R: 1}, {K: "reloadx", C: c.C, Key: c.Key, At: at, X: &x}}
					if x.K == "use" {
						h = append(h, gop{K: "rel", R: 1})
					}
					jobs = append(jobs, job{"intr-exh", h, tmo, true})
				}
			}
		}
	}
	for i := 0; i < nrandom; i++ {
		n := 3 + r.Intn(10)
		t := newTracker()
		var h []gop
		nx := 0
		for tries := 0; len(h) < n && tries < 200; tries++ {
			var o gop
			switch r.Pick([]int{4, 3, 3, 3, 6, 1, 4}) {
			case 6:
				o = gop{K: "query"}
			case 0:
				o = gop{K: "acq", R: r.Intn(3)}
			case 1:
				o = gop{K: "use", R: r.Intn(3)}
			case 2:
				o = gop{K: "rel", R: r.Intn(3)}
			case 3:
				o = cands[r.Pick([]int{4, 2, 1, 2, 2})]
			case 4:
				c := cands[r.Pick([]int{6, 2, 1, 2, 1})]
				var x gop
				switch r.Pick([]int{6, 2, 2, 1, 2, 5}) {
				case 5:
					x = gop{K: "query"}
				case 0:
					x = gop{K: "acq", R: r.Intn(3)}
				case 1:
					x = gop{K: "use", R: r.Intn(3)}
				case 2:
					x = gop{K: "rel", R: r.Intn(3)}
				case 3:
					x = gop{K: "shutdown"}
				case 4:
					x = cands[r.Pick([]int{4, 2, 1, 2, 2})]
				}
				o = gop{K: "reloadx", C: c.C, Key: c.Key, At: ats[r.Intn(len(ats))], X: &x}
			default:
				if len(h) < n/2 {
					continue
				}
				o = gop{K: "shutdown"}
			}
			if !t.ok(o, false) {
				continue
			}
			if o.K == "reloadx" {
				nx++
			}
			t.apply(o)
			h = append(h, o)
		}
		if nx == 0 {
			i--
			continue
		}
		for s := 0; s < 3; s++ {
			if t.held[s] {
				h = append(h, gop{K: "rel", R: s})
			}
		}
		jobs = append(jobs, job{"intr", h, tmo, r.Chance(2, 3)})
	}
	return jobs
}

func main() {
	dnsserver.SetVerifYieldHook(yieldHook)
	flag.Set("logtostderr", "true")
	flag.Set("stderrthreshold", "FATAL")
	hlib.Main(run)
}
