// C06 harness: life cycle of storage backends behind db.DB / dnsserver.FBDNSDB.
//
// Every case is a history of operations (acquire/use/release of readers,
// reloads of every outcome, reload timeouts with late completion, shutdown)
// run against a REAL dnsserver.FBDNSDB whose served *db.DB wraps an
// instrumented fake backend (db.DBI).  The fake backends record every call in
// one shared event log and count calls after Close and second Close calls.
// After every operation the harness reports the new events, the error class,
// which backend is served, the refcounts of all wrappers it has seen and which
// backend every held reader pins.  Coq then runs the model on the same history
// (Run/C06.v model_ok) and checks the property on the observations (spec_ok).
package main

import (
	"bytes"
	"encoding/json"
	"errors"
	"flag"
	"fmt"
	"net"
	"runtime"
	"strconv"
	"sync"
	"time"

	"github.com/facebookincubator/dns/dnsrocks/db"
	"github.com/facebookincubator/dns/dnsrocks/dnsserver"
	"github.com/facebookincubator/dns/dnsrocks/dnsserver/stats"

	"verifharness/hlib"
)

// operation codes of the event log (Spec/Handles.v)
const (
	evOpen = iota
	evNewContext
	evFinder
	evForEach
	evFreeContext
	evReload
	evReloadRet
	evClose
	evFind
	evFindMap
	evGetLocationByMap
	evGetStats
)

const reloadTimeout = 50 * time.Millisecond

var validationKey = []byte("valid")

// ---------------------------------------------------------------- instrumented backend

type world struct {
	mu       sync.Mutex
	events   [][2]int
	nextID   int
	uac, dc  int
	probing  bool
	scripts  []*script // scripts for the next DBI.Reload calls, FIFO
	ownerGID uint64    // goroutine that runs the history
}

// script tells one DBI.Reload call what to do.
type script struct {
	cand    string        // "new" | "same" | "err"
	key     bool          // validation key present in the candidate
	block   chan struct{} // when non-nil: wait until closed (cand/key are set before)
	spin    time.Time     // when non-zero: busy-wait until then (race attempts)
	done    chan struct{} // closed when DBI.Reload is about to return
	started chan struct{} // when non-nil: closed as soon as DBI.Reload has been entered
	created *fakeDB       // the fresh backend, if any
}

type fakeCtx struct{}

func (*fakeCtx) Reset() {}

type fakeDB struct {
	w        *world
	id       int
	closed   int
	hasKey   bool
	closedCh chan struct{}
	closeGID uint64
}

func gid() uint64 {
	var buf [64]byte
	n := runtime.Stack(buf[:], false)
	f := bytes.Fields(buf[:n])
	if len(f) < 2 {
		return 0
	}
	g, _ := strconv.ParseUint(string(f[1]), 10, 64)
	return g
}

func (w *world) newBackend(key bool) *fakeDB {
	// caller holds w.mu
	f := &fakeDB{w: w, id: w.nextID, hasKey: key, closedCh: make(chan struct{})}
	w.nextID++
	w.events = append(w.events, [2]int{f.id, evOpen})
	return f
}

// rec records one call; caller must NOT hold w.mu.
func (f *fakeDB) rec(op int) {
	f.w.mu.Lock()
	defer f.w.mu.Unlock()
	f.recLocked(op)
}

func (f *fakeDB) recLocked(op int) {
	if op == evClose {
		if f.closed > 0 {
			f.w.dc++
		}
	} else if f.closed > 0 {
		f.w.uac++
	}
	f.w.events = append(f.w.events, [2]int{f.id, op})
}

func (f *fakeDB) NewContext() db.Context { f.rec(evNewContext); return &fakeCtx{} }
func (f *fakeDB) FreeContext(db.Context) { f.rec(evFreeContext) }
func (f *fakeDB) Find(key []byte, c db.Context) ([]byte, error) {
	f.rec(evFind)
	return nil, errors.New("not found")
}
func (f *fakeDB) ForEach(key []byte, fn func(value []byte) error, c db.Context) error {
	f.w.mu.Lock()
	f.recLocked(evForEach)
	has := f.hasKey
	f.w.mu.Unlock()
	if has && bytes.Equal(key, validationKey) {
		return fn([]byte{1})
	}
	return nil
}
func (f *fakeDB) FindMap(domain, mtype []byte, c db.Context) ([]byte, error) {
	f.rec(evFindMap)
	return nil, nil
}
func (f *fakeDB) GetLocationByMap(ipnet *net.IPNet, mapID []byte, c db.Context) ([]byte, uint8, error) {
	f.rec(evGetLocationByMap)
	return nil, 0, nil
}
func (f *fakeDB) ClosestKeyFinder() db.ClosestKeyFinder { f.rec(evFinder); return nil }
func (f *fakeDB) GetStats() map[string]int64 {
	f.w.mu.Lock()
	defer f.w.mu.Unlock()
	if !f.w.probing { // probes of the harness are not calls of the code under test
		f.recLocked(evGetStats)
	}
	return map[string]int64{"id": int64(f.id)}
}
func (f *fakeDB) Close() error {
	g := gid()
	f.w.mu.Lock()
	f.recLocked(evClose)
	f.closed++
	first := f.closed == 1
	f.closeGID = g
	f.w.mu.Unlock()
	if first {
		close(f.closedCh)
	}
	return nil
}

func (f *fakeDB) Reload(path string) (db.DBI, error) {
	w := f.w
	w.mu.Lock()
	f.recLocked(evReload)
	var sc *script
	if len(w.scripts) > 0 {
		sc = w.scripts[0]
		w.scripts = w.scripts[1:]
	}
	w.mu.Unlock()
	if sc == nil {
		f.rec(evReloadRet)
		return nil, errors.New("unscripted reload")
	}
	if sc.started != nil {
		close(sc.started)
	}
	if sc.block != nil {
		<-sc.block
	}
	if !sc.spin.IsZero() {
		if d := time.Until(sc.spin) - 2*time.Millisecond; d > 0 {
			time.Sleep(d)
		}
		for time.Now().Before(sc.spin) {
		}
	}
	defer close(sc.done)
	w.mu.Lock()
	defer w.mu.Unlock()
	switch sc.cand {
	case "new":
		nb := w.newBackend(sc.key)
		sc.created = nb
		f.recLocked(evReloadRet)
		return nb, nil
	case "same":
		f.hasKey = sc.key
		f.recLocked(evReloadRet)
		return f, nil
	default:
		f.recLocked(evReloadRet)
		return nil, errors.New("open error")
	}
}

// ---------------------------------------------------------------- histories

type gop struct {
	K   string `json:"k"`             // acq use rel reload tpub tfirst late shutdown race
	R   int    `json:"r,omitempty"`   // reader slot
	C   string `json:"c,omitempty"`   // new same err
	Key bool   `json:"key,omitempty"` // validation key present
	I   int    `json:"i,omitempty"`   // index of the pending reload
}

type stepOut struct {
	Op     gop      `json:"op"`
	Events [][2]int `json:"events"`
	Res    int      `json:"res"`
	Served int      `json:"served"`
	Refs   [][3]int `json:"refs"` // backend id, refCount, destroyable
	Pins   [][2]int `json:"pins"` // slot, backend id
	Uac    int      `json:"uac"`
	Dc     int      `json:"dc"`
}

type caseOut struct {
	Class string    `json:"class"`
	Gen   []gop     `json:"gen"`   // what was asked for (replay input)
	Guard bool      `json:"guard"` // the resolved history satisfies the guard of the theorems
	Init  [][2]int  `json:"init"`
	Steps []stepOut `json:"steps"`
	Note  string    `json:"note,omitempty"`
}

// tracker is the harness' own view of which operations are enabled.
type tracker struct {
	held  map[int]bool
	shut  bool
	npend int
}

func newTracker() *tracker { return &tracker{held: map[int]bool{}} }

// ok says whether o satisfies the guard (wf_hist); weak drops the in-flight clause.
func (t *tracker) ok(o gop, weak bool) bool {
	switch o.K {
	case "acq":
		return !t.shut && !t.held[o.R]
	case "use", "rel":
		return t.held[o.R]
	case "reload", "race":
		if o.C == "new" && o.Key && !weak {
			return !t.shut && t.npend == 0
		}
		return !t.shut
	case "tpub", "tfirst":
		return !t.shut
	case "late":
		return o.I < t.npend
	case "shutdown":
		if weak {
			return !t.shut
		}
		return !t.shut && t.npend == 0
	}
	return false
}

func (t *tracker) apply(o gop) {
	switch o.K {
	case "acq":
		t.held[o.R] = true
	case "rel":
		delete(t.held, o.R)
	case "tfirst":
		t.npend++
	case "late":
		t.npend--
	case "shutdown":
		t.shut = true
	}
}

type heldReader struct {
	rd db.Reader
	w  *db.DB
}

type runner struct {
	w       *world
	fb      *dnsserver.FBDNSDB
	known   []*db.DB
	readers map[int]*heldReader
	pending []*script
	nev     int
	out     caseOut
	retry   bool // an operation did not take the requested course (spurious timeout): run again
}

func (r *runner) probe(d *db.DB) int {
	r.w.mu.Lock()
	r.w.probing = true
	r.w.mu.Unlock()
	id := int(d.GetStats()["id"])
	r.w.mu.Lock()
	r.w.probing = false
	r.w.mu.Unlock()
	return id
}

func (r *runner) takeEvents() [][2]int {
	r.w.mu.Lock()
	defer r.w.mu.Unlock()
	ev := append([][2]int{}, r.w.events[r.nev:]...)
	r.nev = len(r.w.events)
	return ev
}

func (r *runner) observe(o gop, res int, events [][2]int) {
	cur := r.fb.DBForVerif()
	seen := false
	for _, k := range r.known {
		if k == cur {
			seen = true
		}
	}
	if !seen {
		r.known = append(r.known, cur)
	}
	st := stepOut{Op: o, Events: events, Res: res, Served: r.probe(cur), Refs: [][3]int{}, Pins: [][2]int{}}
	for _, k := range r.known {
		rc, d := k.RefCountForVerif()
		di := 0
		if d {
			di = 1
		}
		st.Refs = append(st.Refs, [3]int{r.probe(k), int(rc), di})
	}
	for slot := 0; slot < 64; slot++ {
		if h, ok := r.readers[slot]; ok {
			st.Pins = append(st.Pins, [2]int{slot, r.probe(h.w)})
		}
	}
	r.w.mu.Lock()
	st.Uac, st.Dc = r.w.uac, r.w.dc
	r.w.mu.Unlock()
	r.out.Steps = append(r.out.Steps, st)
}

func errClass(err error) int {
	switch {
	case err == nil:
		return 0
	case errors.Is(err, db.ErrReloadTimeout):
		return 3
	case errors.Is(err, db.ErrValidationKeyNotFound):
		return 2
	default:
		return 1
	}
}

func (r *runner) signal(c string) dnsserver.ReloadSignal {
	if c == "same" {
		return *dnsserver.NewPartialReloadSignal()
	}
	return *dnsserver.NewFullReloadSignal("/nonexistent/verif-c06/next")
}

func waitCh(ch chan struct{}, d time.Duration) bool {
	select {
	case <-ch:
		return true
	case <-time.After(d):
		return false
	}
}

func expectedRes(o gop) int {
	switch {
	case o.C == "err":
		return 1
	case !o.Key:
		return 2
	}
	return 0
}

func (r *runner) do(o gop) {
	switch o.K {
	case "acq":
		w := r.fb.DBForVerif()
		rd, err := r.fb.AcquireReader()
		if err != nil {
			r.out.Note += "acquire failed: " + err.Error() + ";"
			return
		}
		r.readers[o.R] = &heldReader{rd: rd, w: w}
		r.observe(o, 0, r.takeEvents())
	case "use":
		r.readers[o.R].rd.ForEach(append([]byte{}, validationKey...), func([]byte) error { return nil })
		r.observe(o, 0, r.takeEvents())
	case "rel":
		r.readers[o.R].rd.Close()
		delete(r.readers, o.R)
		r.observe(o, 0, r.takeEvents())
	case "shutdown":
		r.fb.Close()
		r.observe(o, 0, r.takeEvents())
	case "reload":
		sc := &script{cand: o.C, key: o.Key, done: make(chan struct{})}
		r.w.mu.Lock()
		r.w.scripts = append(r.w.scripts, sc)
		r.w.mu.Unlock()
		res := errClass(r.fb.Reload(r.signal(o.C)))
		waitCh(sc.done, 2*time.Second)
		if res != expectedRes(o) {
			// the goroutine was not scheduled within the timeout: not the requested course
			r.retry = true
			if sc.created != nil {
				waitCh(sc.created.closedCh, 2*time.Second)
			}
		}
		r.observe(o, res, r.takeEvents())
	case "tfirst":
		sc := &script{block: make(chan struct{}), done: make(chan struct{}), started: make(chan struct{})}
		r.w.mu.Lock()
		r.w.scripts = append(r.w.scripts, sc)
		r.w.mu.Unlock()
		res := errClass(r.fb.Reload(r.signal("same")))
		// on a loaded machine the reload goroutine may not even have called DBI.Reload when
		// its caller times out; the call belongs to this step, so wait until it has been made
		waitCh(sc.started, 5*time.Second)
		r.pending = append(r.pending, sc)
		r.observe(o, res, r.takeEvents())
	case "late":
		sc := r.pending[o.I]
		r.pending = append(append([]*script{}, r.pending[:o.I]...), r.pending[o.I+1:]...)
		sc.cand, sc.key = o.C, o.Key
		close(sc.block)
		waitCh(sc.done, 2*time.Second)
		if sc.created != nil {
			// the reload goroutine must close the late candidate; give it time to do so
			waitCh(sc.created.closedCh, 2*time.Second)
		} else {
			time.Sleep(200 * time.Microsecond)
		}
		r.observe(o, 0, r.takeEvents())
	case "race":
		// DBI.Reload returns at about the moment the timeout fires; which of the three
		// orders happened is read off the result and off the goroutine that closed the candidate
		sc := &script{cand: o.C, key: o.Key, done: make(chan struct{}),
			spin: time.Now().Add(reloadTimeout + time.Duration(o.I)*time.Microsecond)}
		r.w.mu.Lock()
		r.w.scripts = append(r.w.scripts, sc)
		r.w.mu.Unlock()
		res := errClass(r.fb.Reload(r.signal(o.C)))
		waitCh(sc.done, 2*time.Second)
		if res == 3 && sc.created != nil {
			waitCh(sc.created.closedCh, 2*time.Second)
		}
		time.Sleep(200 * time.Microsecond)
		ev := r.takeEvents()
		switch {
		case res != 3: // goroutine first, main validated
			r.observe(gop{K: "reload", C: o.C, Key: o.Key}, res, ev)
		case sc.created != nil && sc.created.closeGID == r.w.ownerGID: // published, then main timed out and closed it
			r.observe(gop{K: "tpub", C: o.C, Key: o.Key}, res, ev)
		default: // main timed out first (or nothing tells the two orders apart)
			cut := 1
			if len(ev) < 1 {
				cut = 0
			}
			r.observe(gop{K: "tfirst"}, res, ev[:cut])
			r.observe(gop{K: "late", I: len(r.pending), C: o.C, Key: o.Key}, 0, ev[cut:])
		}
	}
}

func runHistory(class string, gen []gop) caseOut {
	var out caseOut
	for attempt := 0; attempt < 6; attempt++ {
		w := &world{ownerGID: gid()}
		w.mu.Lock()
		b0 := w.newBackend(true)
		w.mu.Unlock()
		fb, err := dnsserver.NewFBDNSDBBasic(dnsserver.HandlerConfig{},
			dnsserver.DBConfig{Path: "/nonexistent/verif-c06/db", Driver: "fake", ReloadTimeout: reloadTimeout,
				ValidationKey: append([]byte{}, validationKey...)},
			dnsserver.CacheConfig{}, &dnsserver.DummyLogger{}, &stats.DummyStats{})
		if err != nil {
			panic(err)
		}
		d0 := db.NewDBForVerif(b0)
		fb.SetDBForVerif(d0)
		r := &runner{w: w, fb: fb, known: []*db.DB{d0}, readers: map[int]*heldReader{}}
		r.out = caseOut{Class: class, Gen: gen, Steps: []stepOut{}}
		r.out.Init = r.takeEvents()
		t := newTracker()
		for _, o := range gen {
			if !t.ok(o, true) { // never run what the code cannot meaningfully do (unheld slot etc.)
				r.out.Note += "skipped " + o.K + ";"
				continue
			}
			r.do(o)
			if o.K != "race" {
				t.apply(o)
			}
		}
		// release what is still blocked so that no goroutine outlives the case
		for _, sc := range r.pending {
			sc.cand = "err"
			close(sc.block)
			waitCh(sc.done, 2*time.Second)
		}
		// guard of the resolved history
		g := newTracker()
		r.out.Guard = true
		for _, st := range r.out.Steps {
			if !g.ok(st.Op, false) {
				r.out.Guard = false
			}
			g.apply(st.Op)
		}
		out = r.out
		if !r.retry {
			break
		}
		out.Note += fmt.Sprintf("retried %d;", attempt+1)
	}
	return out
}

// ---------------------------------------------------------------- generators

var cands = []gop{
	{K: "reload", C: "new", Key: true}, {K: "reload", C: "same", Key: true}, {K: "reload", C: "err"},
	{K: "reload", C: "new", Key: false}, {K: "reload", C: "same", Key: false},
}

func genRandom(r *hlib.Rng, maxLen int, slots int) []gop {
	n := 3 + r.Intn(maxLen-2)
	t := newTracker()
	var h []gop
	for len(h) < n {
		var o gop
		switch r.Pick([]int{5, 5, 4, 9, 2, 4, 1}) {
		case 0:
			o = gop{K: "acq", R: r.Intn(slots)}
		case 1:
			o = gop{K: "use", R: r.Intn(slots)}
		case 2:
			o = gop{K: "rel", R: r.Intn(slots)}
		case 3:
			o = cands[r.Pick([]int{4, 2, 1, 2, 2})]
		case 4:
			if t.npend >= 2 {
				continue
			}
			o = gop{K: "tfirst"}
		case 5:
			if t.npend == 0 {
				continue
			}
			o = gop{K: "late", I: r.Intn(t.npend), C: []string{"new", "same", "err"}[r.Intn(3)], Key: r.Chance(1, 2)}
		default:
			if len(h) < n/2 {
				continue
			}
			o = gop{K: "shutdown"}
		}
		if !t.ok(o, false) {
			continue
		}
		t.apply(o)
		h = append(h, o)
		if t.shut && len(t.held) == 0 && t.npend == 0 {
			break
		}
	}
	if r.Chance(1, 2) { // drain to a quiescent state
		for t.npend > 0 {
			o := gop{K: "late", I: 0, C: []string{"new", "same", "err"}[r.Intn(3)], Key: true}
			t.apply(o)
			h = append(h, o)
		}
		for s := 0; s < slots; s++ {
			if t.held[s] {
				o := gop{K: "rel", R: s}
				t.apply(o)
				h = append(h, o)
			}
		}
		if !t.shut && r.Chance(1, 2) {
			h = append(h, gop{K: "shutdown"})
		}
	}
	return h
}

func alphabet(slots int) []gop {
	var a []gop
	for s := 0; s < slots; s++ {
		a = append(a, gop{K: "acq", R: s}, gop{K: "use", R: s}, gop{K: "rel", R: s})
	}
	a = append(a, cands...)
	a = append(a, gop{K: "tfirst"}, gop{K: "late", C: "new", Key: true}, gop{K: "late", C: "same", Key: true},
		gop{K: "late", C: "err"}, gop{K: "shutdown"})
	return a
}

// enumerate all guard-satisfying histories of exactly the given depth (prefixes are
// covered by the observations after every step of the longer ones)
func enumerate(depth, slots int, emit func([]gop)) {
	a := alphabet(slots)
	var rec func(h []gop, t *tracker)
	rec = func(h []gop, t *tracker) {
		if len(h) == depth {
			emit(append([]gop{}, h...))
			return
		}
		ext := false
		for _, o := range a {
			if !t.ok(o, false) {
				continue
			}
			ext = true
			t2 := &tracker{held: map[int]bool{}, shut: t.shut, npend: t.npend}
			for k := range t.held {
				t2.held[k] = true
			}
			t2.apply(o)
			rec(append(h, o), t2)
		}
		if !ext && len(h) > 0 {
			emit(append([]gop{}, h...))
		}
	}
	rec(nil, newTracker())
}

type job struct {
	class string
	gen   []gop
}

func runAll(jobs []job, e *hlib.Emitter, par int) {
	res := make([]caseOut, len(jobs))
	var wg sync.WaitGroup
	sem := make(chan struct{}, par)
	for i := range jobs {
		wg.Add(1)
		sem <- struct{}{}
		go func(i int) {
			defer wg.Done()
			defer func() { <-sem }()
			res[i] = runHistory(jobs[i].class, jobs[i].gen)
		}(i)
	}
	wg.Wait()
	for i := range res {
		e.Emit(res[i])
	}
}

func run(a *hlib.Args, e *hlib.Emitter) error {
	if a.Scratch != "" { // glog output of the code under test goes to files in the scratch directory
		flag.Set("logtostderr", "false")
		flag.Set("log_dir", a.Scratch)
	}
	if a.Replay != "" {
		cs, err := hlib.ReadReplay(a.Replay)
		if err != nil {
			return err
		}
		var jobs []job
		for _, m := range cs {
			var class string
			var gen []gop
			json.Unmarshal(m["class"], &class)
			if err := json.Unmarshal(m["gen"], &gen); err != nil {
				return err
			}
			jobs = append(jobs, job{class, gen})
		}
		runAll(jobs, e, 4)
		return nil
	}
	var jobs []job
	if a.Extra == "inflight" {
		// the in-flight finding (outside the guard): never part of a normal run
		jobs = append(jobs,
			job{"inflight", []gop{{K: "tfirst"}, {K: "reload", C: "new", Key: true}, {K: "late", C: "err"}}},
			job{"inflight", []gop{{K: "acq", R: 0}, {K: "tfirst"}, {K: "reload", C: "new", Key: true}, {K: "rel", R: 0}, {K: "late", C: "same", Key: true}}},
			job{"inflight", []gop{{K: "tfirst"}, {K: "shutdown"}, {K: "late", C: "new", Key: true}}})
		runAll(jobs, e, 4)
		return nil
	}
	depth, slots := 2, 3
	if a.Tier == "thorough" {
		depth, slots = 4, 2
	}
	enumerate(depth, slots, func(h []gop) { jobs = append(jobs, job{fmt.Sprintf("exh%d", depth), h}) })
	r := hlib.NewRng(a.Seed, 6)
	nrace := a.N / 12
	for i := 0; i < a.N-nrace; i++ {
		jobs = append(jobs, job{"random", genRandom(r, 25, 3)})
	}
	runAll(jobs, e, 24)
	jobs = nil
	for i := 0; i < nrace; i++ {
		// a short random prefix, then a reload whose backend returns right at the timeout
		h := genRandom(r, 8, 3)
		t := newTracker()
		var pre []gop
		for _, o := range h {
			if o.K == "shutdown" || o.K == "tfirst" || o.K == "late" {
				continue
			}
			pre = append(pre, o)
			t.apply(o)
		}
		pre = append(pre, gop{K: "race", C: "new", Key: r.Chance(2, 3), I: r.Intn(800) - 200})
		for s := 0; s < 3; s++ {
			if t.held[s] {
				pre = append(pre, gop{K: "rel", R: s})
			}
		}
		jobs = append(jobs, job{"race", pre})
	}
	runAll(jobs, e, 3) // the race attempts busy-wait: keep them away from each other
	return nil
}

func main() {
	flag.Set("logtostderr", "true")
	flag.Set("stderrthreshold", "FATAL")
	hlib.Main(run)
}
