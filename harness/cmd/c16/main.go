// C16 harness: the real go-cdb writer (cdb.NewWriter/Put/Close, as used by
// dnsdata/cdb.CreateCDB), reader (Open, Find, FindStart/FindNext with a Context,
// Data, NewReader.First/Exists), Dump and Make on generated pair lists.
//
// Case kinds:
//
//	small  explicit pair list (<= ~60 pairs); every observation is emitted in full
//	       (values per queried key, file bytes, dump text) and is evaluated by the Coq
//	       model and the Coq spec.
//	big    pair list regenerated from (shape, n, seed); thousands to tens of thousands
//	       of pairs; lookups are compared with a Go-side oracle (map key -> values in
//	       insertion order) and only the verdicts / counts / file hash are emitted
//	       (field "compared" lists which comparisons were made).
//	make   explicit cdbmake text (valid or malformed) fed to Make alone.
package main

import (
	"bytes"
	"crypto/sha256"
	"encoding/hex"
	"encoding/json"
	"fmt"
	"io"
	"os"
	"path/filepath"

	spooky "github.com/dgryski/go-spooky"
	cdb "github.com/repustate/go-cdb"

	"verifharness/hlib"
)

type query struct {
	Key    []int   `json:"key"`
	Vals   [][]int `json:"vals"`    // values of successive FindNext calls until the first error
	End    string  `json:"end"`     // "eof" | "eof-not-sticky" | error / panic text
	FindOK bool    `json:"find_ok"` // Find (FindStart+FindNext) found something
	Find   []int   `json:"find"`
}

type genParams struct {
	Shape string `json:"shape"`
	N     int    `json:"n"`
	Seed  uint64 `json:"seed"`
}

type c16case struct {
	Kind  string     `json:"kind"`
	Class string     `json:"class"`
	Kvs   [][2][]int `json:"kvs,omitempty"`
	Gen   *genParams `json:"gen,omitempty"`
	Text  []int      `json:"text,omitempty"`
	Abs   [][]int    `json:"absent,omitempty"` // extra keys to look up (small)

	// observations
	Hash       [][]int  `json:"hash"` // [h, key...] for every key written or queried (small): the WRITER-side hash
	HashAgree  bool     `json:"hash_agree"` // hash stored in the file's slot of every record = streaming hash of its key
	WriteErr   string   `json:"write_err"`
	Queries    []query  `json:"queries"`
	WrappersOK bool     `json:"wrappers_ok"` // Data, Reader.First, Reader.Exists agree with the first FindNext value
	File       []int    `json:"file"`
	FileLen    int      `json:"file_len"`
	FileSHA    string   `json:"file_sha"`
	DumpErr    string   `json:"dump_err"`
	Dump       []int    `json:"dump"`
	MakeErr    string   `json:"make_err"`
	Same       bool     `json:"same"` // Make(Dump(file)) produced exactly the file bytes
	NPairs     int      `json:"n_pairs"`
	NQueries   int      `json:"n_queries"`
	NValues    int      `json:"n_values"`
	LookupsOK  bool     `json:"lookups_ok"` // big: every lookup equals the Go-side oracle
	BadLookup  string   `json:"bad_lookup"`
	Straddles  int      `json:"straddles"` // record headers whose 4-byte words cross a 4096-byte offset
	MaxTable   int      `json:"max_table"` // entries in the fullest hash table
	Compared   []string `json:"compared"`
}

type kv struct{ k, v []byte }

var scratch string
var fileCtr int

func tmpName() string {
	fileCtr++
	return filepath.Join(scratch, fmt.Sprintf("c16-%d-%d.cdb", os.Getpid(), fileCtr))
}

func cp(b []byte) []byte { return append([]byte{}, b...) }

func catch(f func() error) (err error) {
	defer func() {
		if e := recover(); e != nil {
			err = fmt.Errorf("panic: %v", e)
		}
	}()
	return f()
}

func errStr(e error) string {
	if e == nil {
		return ""
	}
	s := e.Error()
	if s == "" {
		s = "error"
	}
	return s
}

// writeFile runs the real writer the way dnsdata/cdb.CreateCDB does.
func writeFile(name string, kvs []kv) error {
	return catch(func() error {
		w, err := cdb.NewWriter(name)
		if err != nil {
			return err
		}
		for _, p := range kvs {
			if err := w.Put(cp(p.k), cp(p.v)); err != nil {
				return err
			}
		}
		return w.Close()
	})
}

func dumpFile(name string) ([]byte, error) {
	var out bytes.Buffer
	err := catch(func() error {
		f, err := os.Open(name)
		if err != nil {
			return err
		}
		defer f.Close()
		return cdb.Dump(&out, f)
	})
	return out.Bytes(), err
}

func makeFile(name string, text []byte) error {
	return catch(func() error {
		f, err := os.Create(name)
		if err != nil {
			return err
		}
		defer f.Close()
		return cdb.Make(f, bytes.NewReader(cp(text)))
	})
}

// lookup returns the FindNext sequence of key with the shared context.
func lookup(c *cdb.Cdb, ctx *cdb.Context, key []byte) (vals [][]byte, end string, findOK bool, find []byte) {
	err := catch(func() error {
		v, e := c.Find(cp(key), ctx)
		if e == nil {
			findOK = true
			find = cp(v)
		} else if e != io.EOF {
			return e
		}
		c.FindStart(ctx)
		for {
			v, e := c.FindNext(cp(key), ctx)
			if e == io.EOF {
				break
			}
			if e != nil {
				return e
			}
			vals = append(vals, cp(v))
			if len(vals) > 1<<22 {
				return fmt.Errorf("FindNext does not terminate")
			}
		}
		// EOF must be sticky
		for i := 0; i < 2; i++ {
			if _, e := c.FindNext(cp(key), ctx); e != io.EOF {
				end = "eof-not-sticky"
			}
		}
		return nil
	})
	if err != nil {
		end = errStr(err)
	} else if end == "" {
		end = "eof"
	}
	return
}

// wrappers checks Data / Reader.First / Reader.Exists against the first value.
func wrappers(c *cdb.Cdb, r cdb.Reader, ctx *cdb.Context, key []byte, vals [][]byte) bool {
	ok := true
	err := catch(func() error {
		d, e := c.Data(cp(key), ctx)
		if len(vals) == 0 {
			if e != io.EOF {
				ok = false
			}
		} else if e != nil || !bytes.Equal(d, vals[0]) {
			ok = false
		}
		if len(key) > 0 && r != nil {
			v, found := r.First(cp(key[1:]), key[0])
			ex := r.Exists(cp(key[1:]), key[0])
			if found != (len(vals) > 0) || ex != found {
				ok = false
			}
			if found && !bytes.Equal(v, vals[0]) {
				ok = false
			}
		}
		return nil
	})
	return ok && err == nil
}

// streamHash is the hash the writer and Make compute (cdbHash(): spooky.New(0,0), Write, Sum32).
// The reader's hashKey is unexported; that it agrees is observable only through lookups.
func streamHash(key []byte) uint32 {
	h := spooky.New(0, 0)
	h.Reset()
	h.Write(key)
	return h.Sum32()
}

func countStraddles(kvs []kv) int {
	n := 0
	pos := 2048
	for _, p := range kvs {
		for _, o := range []int{pos, pos + 4} {
			if o/4096 != (o+3)/4096 {
				n++
			}
		}
		pos += 8 + len(p.k) + len(p.v)
	}
	return n
}

func maxTable(kvs []kv) int {
	var cnt [256]int
	m := 0
	for _, p := range kvs {
		t := streamHash(p.k) % 256
		cnt[t]++
		if cnt[t] > m {
			m = cnt[t]
		}
	}
	return m
}

func ints2(bs [][]byte) [][]int {
	r := make([][]int, len(bs))
	for i, b := range bs {
		r[i] = hlib.Ints(b)
	}
	return r
}

// runPairs runs writer, reader, Dump and Make on kvs.  full=true emits everything.
func runPairs(c *c16case, kvs []kv, queriesIn [][]byte, full bool) {
	c.NPairs = len(kvs)
	c.Queries = []query{}
	c.Hash = [][]int{}
	c.Dump = []int{}
	c.File = []int{}
	c.HashAgree = true
	c.WrappersOK = true
	c.LookupsOK = true
	c.Straddles = countStraddles(kvs)
	c.MaxTable = maxTable(kvs)
	name := tmpName()
	defer os.Remove(name)
	if err := writeFile(name, kvs); err != nil {
		c.WriteErr = errStr(err)
		return
	}
	c.Compared = append(c.Compared, "write")
	data, err := os.ReadFile(name)
	if err != nil {
		c.WriteErr = errStr(err)
		return
	}
	c.FileLen = len(data)
	sum := sha256.Sum256(data)
	c.FileSHA = hex.EncodeToString(sum[:])
	if full {
		c.File = hlib.Ints(data)
	}

	// oracle and query list: every distinct present key in first-occurrence order, then the extra keys
	oracle := map[string][][]byte{}
	var keys [][]byte
	seen := map[string]bool{}
	for _, p := range kvs {
		oracle[string(p.k)] = append(oracle[string(p.k)], p.v)
		if !seen[string(p.k)] {
			seen[string(p.k)] = true
			keys = append(keys, p.k)
		}
	}
	for _, k := range queriesIn {
		if !seen[string(k)] {
			seen[string(k)] = true
			keys = append(keys, k)
		}
	}
	for _, k := range keys {
		if full {
			c.Hash = append(c.Hash, append([]int{int(streamHash(k))}, hlib.Ints(k)...))
		}
	}

	// lookups
	db, err := cdb.Open(name)
	if err != nil || db == nil {
		c.WriteErr = "open: " + errStr(err)
		return
	}
	// the hash the writer stored with every record is the streaming hash of its key
	nrec := 0
	if e := db.ForEachKeys(func(h uint32, k, v []byte) {
		nrec++
		if h != streamHash(k) {
			c.HashAgree = false
		}
	}); e != nil || nrec != len(kvs) {
		c.HashAgree = false
	}
	rd, _ := cdb.NewReader(name)
	ctx := cdb.NewContext()
	for _, k := range keys {
		vals, end, fok, fv := lookup(db, ctx, k)
		c.NQueries++
		c.NValues += len(vals)
		if !wrappers(db, rd, ctx, k, vals) {
			c.WrappersOK = false
		}
		if full {
			q := query{Key: hlib.Ints(k), Vals: ints2(vals), End: end, FindOK: fok, Find: hlib.Ints(fv)}
			c.Queries = append(c.Queries, q)
		} else {
			want := oracle[string(k)]
			good := end == "eof" && len(vals) == len(want) && fok == (len(want) > 0)
			if good {
				for i := range vals {
					if !bytes.Equal(vals[i], want[i]) {
						good = false
					}
				}
				if fok && !bytes.Equal(fv, want[0]) {
					good = false
				}
			}
			if !good && c.LookupsOK {
				c.LookupsOK = false
				c.BadLookup = fmt.Sprintf("key %x: got %d values end=%s, want %d", k, len(vals), end, len(want))
			}
		}
	}
	if rd != nil {
		rd.Close()
	}
	db.Close()
	c.Compared = append(c.Compared, "lookups:"+map[bool]string{true: "coq-model+coq-spec", false: "go-oracle"}[full])

	// dump -> make
	dump, err := dumpFile(name)
	c.DumpErr = errStr(err)
	if full {
		c.Dump = hlib.Ints(dump)
	}
	name2 := tmpName()
	defer os.Remove(name2)
	if err == nil {
		err = makeFile(name2, dump)
		c.MakeErr = errStr(err)
		if err == nil {
			data2, e2 := os.ReadFile(name2)
			c.Same = e2 == nil && bytes.Equal(data, data2)
		}
	} else {
		c.MakeErr = "not run"
	}
	c.Compared = append(c.Compared, "dump-make-bytes")
	if !full {
		// the dump text itself against the oracle format
		var want bytes.Buffer
		for _, p := range kvs {
			fmt.Fprintf(&want, "+%d,%d:", len(p.k), len(p.v))
			want.Write(p.k)
			want.WriteString("->")
			want.Write(p.v)
			want.WriteString("\n")
		}
		want.WriteString("\n")
		if c.DumpErr == "" && !bytes.Equal(want.Bytes(), dump) {
			c.DumpErr = "dump text differs from the records written"
		}
		c.Compared = append(c.Compared, "dump-text:go-oracle")
	}
}

// ---------------------------------------------------------------- generators

var alpha = []byte("ab\x00\xff")

func smallKey(r *hlib.Rng) []byte {
	switch r.Intn(6) {
	case 0:
		return []byte{}
	case 1:
		return r.Bytes(1+r.Intn(2), alpha)
	case 2:
		return r.Bytes(1+r.Intn(3), nil)
	default:
		return r.Bytes(r.Intn(5), []byte("abc"))
	}
}

func smallVal(r *hlib.Rng) []byte {
	switch r.Intn(5) {
	case 0:
		return []byte{}
	case 1:
		return r.Bytes(1+r.Intn(12), nil)
	default:
		return r.Bytes(r.Intn(6), []byte("xyz01\n+->,:"))
	}
}

// searchKey finds a key (prefix + counter bytes) whose spooky hash satisfies pred.
func searchKey(r *hlib.Rng, used map[string]bool, pred func(h uint32) bool) []byte {
	for i := 0; i < 1<<24; i++ {
		k := r.Bytes(2+r.Intn(5), nil)
		if used[string(k)] {
			continue
		}
		if pred(spooky.Hash32(k)) {
			used[string(k)] = true
			return k
		}
	}
	panic("searchKey: nothing found")
}

// fullCollisions: pairs of distinct keys with the same 32-bit spooky hash (birthday search, once).
var fullColl [][2][]byte

func findFullCollisions(seed uint64) {
	if fullColl != nil {
		return
	}
	r := hlib.NewRng(seed, 1616)
	seen := make(map[uint32][]byte, 1<<19)
	for i := 0; i < 400000 && len(fullColl) < 6; i++ {
		k := r.Bytes(4+r.Intn(3), nil)
		h := spooky.Hash32(k)
		if o, ok := seen[h]; ok {
			if !bytes.Equal(o, k) {
				fullColl = append(fullColl, [2][]byte{o, k})
			}
		} else {
			seen[h] = k
		}
	}
	if fullColl == nil {
		fullColl = [][2][]byte{}
	}
}

// prefixColl: pairs (a, b) with the same 32-bit hash where a is a proper prefix of b: a reader that
// compared only len(lookup key) bytes at the stored key's position would take b's record for a, and
// a's record followed by a value starting with b[len(a):] for b.  One known pair is checked against
// the hash the code uses now; if the hash ever changes, a bounded chain search (all prefixes of random
// 64-byte strings, about 2^32/2000 chains expected) looks for another.
var prefixColl [][2][]byte

func findPrefixCollisions(seed uint64) {
	if prefixColl != nil {
		return
	}
	prefixColl = [][2][]byte{}
	a, b := []byte("lprsn"), []byte("lprsnljmknzwwxtslhcmuvvdhtuvsgtriccftphkcqbddrxngyfzsxcbjxtnjberyse")
	if spooky.Hash32(a) == spooky.Hash32(b) {
		prefixColl = append(prefixColl, [2][]byte{a, b})
		return
	}
	r := hlib.NewRng(seed, 161616)
	for c := 0; c < 3000000 && len(prefixColl) == 0; c++ {
		s := r.Bytes(64, []byte("abcdefghijklmnopqrstuvwxyz"))
		seen := map[uint32]int{}
		for n := 2; n <= len(s); n++ {
			h := spooky.Hash32(s[:n])
			if m, ok := seen[h]; ok {
				prefixColl = append(prefixColl, [2][]byte{cp(s[:m]), cp(s[:n])})
				break
			}
			seen[h] = n
		}
	}
}

// collide builds a list whose keys all fall into one table and start at chosen slots.
func genCollide(r *hlib.Rng) ([]kv, [][]byte, string) {
	used := map[string]bool{}
	nkeys := 2 + r.Intn(5)
	mult := make([]int, nkeys)
	total := 0
	for i := range mult {
		mult[i] = 1
		if r.Chance(1, 3) {
			mult[i] = 1 + r.Intn(3)
		}
		total += mult[i]
	}
	table := uint32(r.Intn(256))
	nslots := uint32(2 * total)
	var s0 uint32
	class := "collide"
	switch r.Intn(3) {
	case 0:
		s0 = nslots - 1 - uint32(r.Intn(2)) // chain wraps around the end of the table
		class = "collide-wrap"
	case 1:
		s0 = 0
	default:
		s0 = uint32(r.Intn(int(nslots)))
	}
	spread := uint32(1 + r.Intn(2)) // start slots s0 .. s0+spread-1 (overlapping chains)
	inSlot := func(h uint32) bool {
		if h%256 != table {
			return false
		}
		d := ((h>>8)%nslots + nslots - s0) % nslots
		return d < spread
	}
	keys := make([][]byte, nkeys)
	for i := range keys {
		keys[i] = searchKey(r, used, inSlot)
	}
	var kvs []kv
	for i, k := range keys {
		for j := 0; j < mult[i]; j++ {
			kvs = append(kvs, kv{k, smallVal(r)})
		}
	}
	r.Shuffle(len(kvs), func(i, j int) { kvs[i], kvs[j] = kvs[j], kvs[i] })
	// absent keys in the very same chain, and one in the same table elsewhere
	abs := [][]byte{searchKey(r, used, inSlot), searchKey(r, used, inSlot),
		searchKey(r, used, func(h uint32) bool { return h%256 == table })}
	return kvs, abs, class
}

func genSmall(r *hlib.Rng) ([]kv, [][]byte, string) {
	var kvs []kv
	var abs [][]byte
	class := ""
	switch r.Pick([]int{1, 6, 4, 3, 6, 2, 1, 2, 2}) {
	case 8:
		// equal hash AND one key a proper prefix of the other (see prefixColl)
		class = "prefixhash"
		if len(prefixColl) == 0 {
			class = "random"
			kvs = append(kvs, kv{smallKey(r), smallVal(r)})
			break
		}
		pr := prefixColl[r.Intn(len(prefixColl))]
		a, b := pr[0], pr[1]
		rest := b[len(a):]
		switch r.Intn(3) {
		case 0: // only the long key is written: the short one is absent
			kvs = append(kvs, kv{b, smallVal(r)})
			abs = append(abs, a)
		case 1: // only the short key, with a value that continues like the long key: the long one is absent
			kvs = append(kvs, kv{a, append(cp(rest), smallVal(r)...)})
			if r.Chance(1, 2) {
				kvs = append(kvs, kv{a, cp(rest)})
			}
			abs = append(abs, b)
		default: // both, interleaved: each has its own values only
			kvs = append(kvs, kv{a, smallVal(r)}, kv{b, smallVal(r)}, kv{a, append(cp(rest), 'x')}, kv{b, smallVal(r)})
		}
		for i := r.Intn(4); i > 0; i-- {
			kvs = append(kvs, kv{smallKey(r), smallVal(r)})
		}
	case 7:
		// keys of 90..200 bytes: the streaming hasher (writer) and the one-shot hash take different
		// code paths from 96 bytes on
		class = "longkey"
		for i := 1 + r.Intn(3); i > 0; i-- {
			k := r.Bytes(90+r.Intn(111), nil)
			kvs = append(kvs, kv{k, smallVal(r)})
			if r.Chance(1, 2) {
				kvs = append(kvs, kv{smallKey(r), smallVal(r)}, kv{k, smallVal(r)})
			}
		}
		abs = append(abs, r.Bytes(90+r.Intn(111), nil))
	case 0:
		class = "empty"
	case 1:
		class = "random"
		n := 1 + r.Intn(40)
		for i := 0; i < n; i++ {
			kvs = append(kvs, kv{smallKey(r), smallVal(r)})
		}
	case 2:
		class = "repeats"
		nk := 1 + r.Intn(3)
		keys := make([][]byte, nk)
		for i := range keys {
			keys[i] = smallKey(r)
		}
		n := 2 + r.Intn(20)
		for i := 0; i < n; i++ {
			p := kv{keys[r.Intn(nk)], smallVal(r)}
			if len(kvs) > 0 && r.Chance(1, 3) {
				p = kvs[r.Intn(len(kvs))] // identical pair again
			}
			kvs = append(kvs, p)
		}
	case 3:
		class = "emptykv"
		n := 1 + r.Intn(8)
		for i := 0; i < n; i++ {
			p := kv{smallKey(r), smallVal(r)}
			if r.Chance(1, 2) {
				p.k = []byte{}
			}
			if r.Chance(1, 2) {
				p.v = []byte{}
			}
			kvs = append(kvs, p)
		}
	case 4:
		return genCollide(r)
	case 5:
		class = "fullhash"
		if len(fullColl) == 0 {
			class = "random"
		}
		for i := 0; i < 1+r.Intn(2) && len(fullColl) > 0; i++ {
			pr := fullColl[r.Intn(len(fullColl))]
			a, b := pr[0], pr[1]
			if r.Chance(1, 2) {
				a, b = b, a
			}
			kvs = append(kvs, kv{a, smallVal(r)})
			if r.Chance(1, 2) {
				kvs = append(kvs, kv{b, smallVal(r)}, kv{a, smallVal(r)})
			} else {
				abs = append(abs, b) // same 32-bit hash as a present key, but never written
			}
		}
		for i := r.Intn(6); i > 0; i-- {
			kvs = append(kvs, kv{smallKey(r), smallVal(r)})
		}
	default:
		class = "straddle"
		// some records, then one sized so that the next header crosses offset 4096
		pos := 2048
		for i := r.Intn(4); i > 0; i-- {
			p := kv{smallKey(r), smallVal(r)}
			kvs = append(kvs, p)
			pos += 8 + len(p.k) + len(p.v)
		}
		delta := []int{1, 2, 3, 5, 6, 7}[r.Intn(6)]
		k := r.Bytes(2, []byte("kq"))
		vl := 4096 - delta - pos - 8 - len(k)
		kvs = append(kvs, kv{k, r.Bytes(vl, []byte("v"))})
		for i := 1 + r.Intn(3); i > 0; i-- {
			kvs = append(kvs, kv{smallKey(r), smallVal(r)})
		}
	}
	// absent keys: random ones, neighbours of present keys
	for i := r.Intn(4); i > 0; i-- {
		abs = append(abs, smallKey(r))
	}
	if len(kvs) > 0 {
		k := kvs[r.Intn(len(kvs))].k
		abs = append(abs, append(cp(k), 0))
		if len(k) > 0 {
			abs = append(abs, cp(k[:len(k)-1]))
			m := cp(k)
			m[len(m)-1] ^= 1
			abs = append(abs, m)
		}
	}
	abs = append(abs, []byte("absent"))
	return kvs, abs, class
}

// genBig regenerates a large pair list from its parameters.
func genBig(g *genParams) ([]kv, [][]byte) {
	r := hlib.NewRng(g.Seed, 160)
	var kvs []kv
	var abs [][]byte
	switch g.Shape {
	case "big-random":
		// keys from a space about half of n, so many repeat; occasional large values
		space := g.N/2 + 1
		for i := 0; i < g.N; i++ {
			k := []byte(fmt.Sprintf("k%d", r.Intn(space)))
			var v []byte
			switch {
			case r.Chance(1, 400):
				v = r.Bytes(3000+r.Intn(7000), nil)
			case r.Chance(1, 10):
				v = []byte{}
			default:
				v = r.Bytes(r.Intn(50), nil)
			}
			kvs = append(kvs, kv{k, v})
		}
		for i := 0; i < 200; i++ {
			abs = append(abs, []byte(fmt.Sprintf("k%d", space+r.Intn(space))))
		}
	case "big-longkeys":
		// g.N rounds; in every round one key of every length 90..200, each looked up
		for round := 0; round < g.N; round++ {
			for l := 90; l <= 200; l++ {
				k := r.Bytes(l, nil)
				kvs = append(kvs, kv{k, r.Bytes(r.Intn(6), nil)})
				if r.Chance(1, 4) {
					kvs = append(kvs, kv{k, r.Bytes(r.Intn(6), nil)})
				}
				if r.Chance(1, 4) {
					abs = append(abs, r.Bytes(l, nil))
				}
			}
		}
		r.Shuffle(len(kvs), func(i, j int) { kvs[i], kvs[j] = kvs[j], kvs[i] })
	case "big-onetable":
		// every key in one table: long chains, wrap-around inside a big table
		table := uint32(r.Intn(256))
		used := map[string]bool{}
		var keys [][]byte
		nk := g.N/2 + 1
		for len(keys) < nk {
			keys = append(keys, searchKey(r, used, func(h uint32) bool { return h%256 == table }))
		}
		for i := 0; i < g.N; i++ {
			kvs = append(kvs, kv{keys[r.Intn(nk)], r.Bytes(r.Intn(8), nil)})
		}
		for i := 0; i < 50; i++ {
			abs = append(abs, searchKey(r, used, func(h uint32) bool { return h%256 == table }))
		}
	case "big-fewslots":
		// one table, all keys starting in a few adjacent slots near the end of the table: long wrapping chain
		table := uint32(r.Intn(256))
		used := map[string]bool{}
		nslots := uint32(2 * g.N)
		s0 := nslots - 3
		pred := func(h uint32) bool {
			return h%256 == table && ((h>>8)%nslots+nslots-s0)%nslots < 4
		}
		for i := 0; i < g.N; i++ {
			kvs = append(kvs, kv{searchKey(r, used, pred), r.Bytes(r.Intn(4), nil)})
		}
		for i := 0; i < 4; i++ {
			abs = append(abs, searchKey(r, used, pred))
		}
	default: // "big-straddle": value sizes chosen so that record headers cross 4096-byte offsets
		pos := 2048
		for i := 0; i < g.N; i++ {
			k := []byte(fmt.Sprintf("s%d", r.Intn(g.N)))
			next := (pos/4096 + 1) * 4096
			var vl int
			if r.Chance(1, 3) {
				delta := []int{1, 2, 3, 5, 6, 7}[r.Intn(6)]
				vl = next + 4096*r.Intn(2) - delta - pos - 8 - len(k)
			} else {
				vl = r.Intn(1500)
			}
			if vl < 0 {
				vl = r.Intn(30)
			}
			kvs = append(kvs, kv{k, r.Bytes(vl, []byte("v"))})
			pos += 8 + len(k) + vl
		}
		abs = append(abs, []byte("s"), []byte("absent"))
	}
	abs = append(abs, []byte{}, []byte("absent-key"))
	return kvs, abs
}

func validText(kvs []kv) []byte {
	var b bytes.Buffer
	for _, p := range kvs {
		fmt.Fprintf(&b, "+%d,%d:", len(p.k), len(p.v))
		b.Write(p.k)
		b.WriteString("->")
		b.Write(p.v)
		b.WriteString("\n")
	}
	b.WriteString("\n")
	return b.Bytes()
}

var fixedTexts = []string{
	"", "\n", "\n\n", "x", "+", "+1", "+1,1", "+1,1:", "+1,1:a", "+1,1:a->b", "+1,1:a->b\n", "+1,1:a->b\n\n",
	"+1,1:a->b\n\ntrailing garbage", "+1,1:a=>b\n\n", "+1,1:a-xb\n\n", "+1,1:a->bc\n\n", "+01,001:a->b\n\n",
	"+ 1,1:a->b\n\n", "+-1,1:a->b\n\n", "++1,1:a->b\n\n", "+1_0,1:a->b\n\n", "+,1:->b\n\n", "+0,0:->\n\n",
	"+0,0:->\n+0,0:->\n\n", "+4294967295,0:a->\n\n", "+4294967296,0:a->\n\n", "+99999999999999999999999,0:a->\n\n",
	"+0x1,1:a->b\n\n", "+1,1:a->b\r\n\n", "+1,1:a->b\n+1,1:a->c\n\n", "+1,1:a->b\n-1,1:a->c\n\n", "+1.0,1:a->b\n\n",
	"+3,2:a,b->:\n\n\n", "+1,2:\n->\n+\n\n",
}

func genMakeText(r *hlib.Rng) ([]byte, string) {
	var kvs []kv
	for i := r.Intn(5); i > 0; i-- {
		kvs = append(kvs, kv{smallKey(r), smallVal(r)})
	}
	t := validText(kvs)
	switch r.Intn(6) {
	case 0:
		return t, "make-valid"
	case 1:
		return t[:r.Intn(len(t))], "make-truncated"
	case 2:
		m := cp(t)
		m[r.Intn(len(m))] = r.Bytes(1, []byte("+-,:>\n0 9a"))[0]
		return m, "make-bytechange"
	case 3:
		i := r.Intn(len(t) + 1)
		m := append(cp(t[:i]), r.Bytes(1+r.Intn(3), []byte("+-,:>\n019 "))...)
		return append(m, t[i:]...), "make-insert"
	case 4:
		i := r.Intn(len(t))
		return append(cp(t[:i]), t[i+1:]...), "make-delete"
	default:
		return append(cp(t), r.Bytes(r.Intn(5), []byte("+1,:a\n"))...), "make-trailing"
	}
}

// ---------------------------------------------------------------- running cases

func fromInts2(p [][2][]int) []kv {
	r := make([]kv, len(p))
	for i, x := range p {
		r[i] = kv{hlib.Unints(x[0]), hlib.Unints(x[1])}
	}
	return r
}

func runSmall(kvs []kv, abs [][]byte, class string) c16case {
	c := c16case{Kind: "small", Class: class}
	c.Kvs = make([][2][]int, len(kvs))
	for i, p := range kvs {
		c.Kvs[i] = [2][]int{hlib.Ints(p.k), hlib.Ints(p.v)}
	}
	c.Abs = ints2(abs)
	if c.Abs == nil {
		c.Abs = [][]int{}
	}
	runPairs(&c, kvs, abs, true)
	return c
}

func runBig(g genParams) c16case {
	c := c16case{Kind: "big", Class: g.Shape, Gen: &g}
	kvs, abs := genBig(&g)
	runPairs(&c, kvs, abs, false)
	return c
}

func runMake(text []byte, class string) c16case {
	c := c16case{Kind: "make", Class: class, Text: hlib.Ints(text), HashAgree: true, WrappersOK: true, LookupsOK: true}
	c.Queries = []query{}
	c.Hash = [][]int{}
	c.File = []int{}
	c.Dump = []int{}
	name := tmpName()
	defer os.Remove(name)
	err := makeFile(name, text)
	c.MakeErr = errStr(err)
	c.Compared = []string{"make-ok"}
	if err == nil {
		data, _ := os.ReadFile(name)
		c.FileLen = len(data)
		c.File = hlib.Ints(data)
		d, e := dumpFile(name)
		c.DumpErr = errStr(e)
		c.Dump = hlib.Ints(d)
		c.Compared = append(c.Compared, "dump-of-made-file")
		// hashes of the keys in the made file (for the model's table layout diagnostic)
		if db, e := cdb.Open(name); e == nil && db != nil {
			seen := map[string]bool{}
			db.ForEachKeys(func(h uint32, k, v []byte) {
				if !seen[string(k)] {
					seen[string(k)] = true
					if h != streamHash(k) {
						c.HashAgree = false
					}
					c.Hash = append(c.Hash, append([]int{int(h)}, hlib.Ints(k)...))
				}
			})
			db.Close()
		}
	}
	return c
}

func run(a *hlib.Args, e *hlib.Emitter) error {
	scratch = a.Scratch
	if scratch == "" {
		d, err := os.MkdirTemp("/var/tmp", "c16-")
		if err != nil {
			return err
		}
		defer os.RemoveAll(d)
		scratch = d
	}
	if a.Replay != "" {
		cs, err := hlib.ReadReplay(a.Replay)
		if err != nil {
			return err
		}
		for _, m := range cs {
			var kind, class string
			json.Unmarshal(m["kind"], &kind)
			json.Unmarshal(m["class"], &class)
			switch kind {
			case "big":
				var g genParams
				json.Unmarshal(m["gen"], &g)
				e.Emit(runBig(g))
			case "make":
				var t []int
				json.Unmarshal(m["text"], &t)
				e.Emit(runMake(hlib.Unints(t), class))
			default:
				var p [][2][]int
				var ab [][]int
				json.Unmarshal(m["kvs"], &p)
				json.Unmarshal(m["absent"], &ab)
				abs := make([][]byte, len(ab))
				for i, x := range ab {
					abs[i] = hlib.Unints(x)
				}
				e.Emit(runSmall(fromInts2(p), abs, class))
			}
		}
		return nil
	}
	findFullCollisions(a.Seed)
	findPrefixCollisions(a.Seed)
	r := hlib.NewRng(a.Seed, 16)

	// fixed part: the shapes that must always be present
	e.Emit(runSmall(nil, [][]byte{{}, []byte("a")}, "empty"))
	e.Emit(runSmall([]kv{{[]byte{}, []byte{}}}, [][]byte{[]byte("a"), {0}}, "emptykv"))
	e.Emit(runSmall([]kv{{[]byte{}, []byte("x")}, {[]byte{}, []byte{}}, {[]byte{}, []byte("x")}, {[]byte("a"), []byte{}}}, [][]byte{{0}}, "emptykv"))
	e.Emit(runSmall([]kv{{[]byte("one"), []byte("1")}, {[]byte("two"), []byte("2")}, {[]byte("two"), []byte("22")},
		{[]byte("three"), []byte("3")}, {[]byte("three"), []byte("33")}, {[]byte("three"), []byte("333")}}, [][]byte{[]byte("does not exist")}, "repeats"))
	for _, delta := range []int{1, 2, 3, 5, 6, 7} {
		// first record: 2-byte key and a value such that the second record's header crosses offset 4096
		vl := 4096 - delta - 2048 - 8 - 2
		kvs := []kv{{[]byte("kk"), bytes.Repeat([]byte("v"), vl)}, {[]byte("b"), []byte("second")}, {[]byte("kk"), []byte("third")}}
		e.Emit(runSmall(kvs, [][]byte{[]byte("k")}, "straddle"))
	}
	for _, l := range []int{95, 96, 97, 191, 192, 193} {
		k := bytes.Repeat([]byte{byte(l)}, l)
		e.Emit(runSmall([]kv{{k, []byte("v1")}, {[]byte("short"), []byte("s")}, {k, []byte("v2")}}, [][]byte{k[:l-1], append(cp(k), 0)}, "longkey"))
	}
	for _, t := range fixedTexts {
		e.Emit(runMake([]byte(t), "make-fixed"))
	}
	sizes := []int{300, 1000, 3000, 5000}
	few := []int{40, 150}
	if a.Tier == "thorough" {
		sizes = []int{1000, 5000, 20000, 60000}
		few = []int{100, 400}
	}
	for i, n := range sizes {
		e.Emit(runBig(genParams{"big-random", n, a.Seed + uint64(i)}))
		e.Emit(runBig(genParams{"big-straddle", n / 10, a.Seed + uint64(i)}))
	}
	e.Emit(runBig(genParams{"big-longkeys", 2, a.Seed}))
	e.Emit(runBig(genParams{"big-onetable", sizes[1], a.Seed}))
	for i, n := range few {
		e.Emit(runBig(genParams{"big-fewslots", n, a.Seed + uint64(i)}))
	}

	for i := 0; i < a.N; i++ {
		switch r.Pick([]int{16, 3, 1}) {
		case 0:
			kvs, abs, class := genSmall(r)
			e.Emit(runSmall(kvs, abs, class))
		case 1:
			t, class := genMakeText(r)
			e.Emit(runMake(t, class))
		default:
			shapes := []string{"big-random", "big-straddle", "big-onetable"}
			n := 100 + r.Intn(sizes[2])
			sh := shapes[r.Intn(len(shapes))]
			if sh == "big-straddle" {
				n = n/10 + 2
			}
			e.Emit(runBig(genParams{sh, n, r.U64() >> 1}))
		}
	}
	return nil
}

func main() { hlib.Main(run) }
