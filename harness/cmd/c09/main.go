// C09 harness: text normal form (DecodeLn / MarshalText / MarshalMap round trip on
// generated data-file lines of all 17 record types) and preprocessing (original
// vs preprocessed file compiled to RocksDB and dumped).
package main

import (
	"bufio"
	"bytes"
	"encoding/base64"
	"encoding/binary"
	"encoding/json"
	"fmt"
	"io"
	"log"
	"net"
	"os"
	"path/filepath"
	"sort"
	"strings"
	"sync"

	rocksdb "github.com/facebookincubator/dns/dnsrocks/cgo-rocksdb"
	"github.com/facebookincubator/dns/dnsrocks/dnsdata"
	"github.com/facebookincubator/dns/dnsrocks/dnsdata/rdb"

	"verifharness/complib"
	"verifharness/hlib"
)

// ---------------------------------------------------------------- observation types

type kvT struct {
	K []int `json:"k"`
	V []int `json:"v"`
}

// one DecodeLn -> MarshalMap + MarshalText step
type stepT struct {
	Err  string `json:"err"` // "" | "decode" | "map" | "text" | "panic"
	Text []int  `json:"text"`
	KV   []kvT  `json:"kv"`
}

type ipParse struct {
	T  []int `json:"t"`  // field text
	IP []int `json:"ip"` // net.ParseIP(text) (16 bytes); absent entries are nil results
}
type ipPrint struct {
	IP []int `json:"ip"`
	T  []int `json:"t"` // net.IP(ip).String()
}
type cidrParse struct {
	T    []int `json:"t"`
	IP   []int `json:"ip"` // ipnet.IP of net.ParseCIDR(text): 4 or 16 bytes
	Ones int   `json:"ones"`
	Bits int   `json:"bits"`
}
type netPrint struct {
	IP   []int `json:"ip"` // 16 bytes
	Ones int   `json:"ones"`
	T    []int `json:"t"` // (&net.IPNet{IP: ip, Mask: net.CIDRMask(ones, 128)}).String()
}

// base64.StdEncoding on the echconfig values of B/H lines: Decode (text -> bytes, only successful
// ones are listed) and Encode (bytes -> text)
type b64Pair struct {
	T []int `json:"t"`
	B []int `json:"b"`
}

type lineCase struct {
	Kind   string      `json:"kind"` // "line"
	Class  string      `json:"class"`
	T      string      `json:"t"` // record type character ("" for an empty line)
	V2     bool        `json:"v2"`
	Serial uint32      `json:"serial"`
	Wf     bool        `json:"wf"` // produced by the well-formed generator
	Line   []int       `json:"line"`
	S1     stepT       `json:"s1"` // on Line
	S2     stepT       `json:"s2"` // on S1.Text
	S3     stepT       `json:"s3"` // on S2.Text
	IPP    []ipParse   `json:"ipp"`
	IPS    []ipPrint   `json:"ips"`
	CP     []cidrParse `json:"cp"`
	NP     []netPrint  `json:"np"`
	Runes  [][3]int    `json:"runes"` // (rune, strconv.IsPrint, unicode.ToLower) for runes >= 0x80 of the unquoted fields
	B64D   []b64Pair   `json:"b64d"`
	B64E   []b64Pair   `json:"b64e"`
}

type dumpEnt struct {
	K  []int   `json:"k"`
	Vs [][]int `json:"vs"` // sorted multiset of values
}

type fileCase struct {
	Kind      string      `json:"kind"` // "file"
	Class     string      `json:"class"`
	V2        bool        `json:"v2"`
	Serial    uint32      `json:"serial"`     // default serial of both compilations
	PreSerial uint32      `json:"pre_serial"` // Codec.Serial of the preprocessor (0 or Serial)
	File      [][]int     `json:"file"`       // the lines of the original file
	PreErr    string      `json:"pre_err"`
	Pre       [][]int     `json:"pre"` // lines written by the preprocessor
	OrigErr   string      `json:"orig_err"`
	Orig      []dumpEnt   `json:"orig"`
	PErr      string      `json:"p_err"`
	PDump     []dumpEnt   `json:"pdump"`
	AccKV     []kvT       `json:"acc"`  // Accum.MarshalMap of a codec that decoded the original lines (the range points)
	SoaN      []int       `json:"soan"` // per line of File: 1 if the line starts with 'Z'
	IPP       []ipParse   `json:"ipp"`
	IPS       []ipPrint   `json:"ips"`
	CP        []cidrParse `json:"cp"`
	NP        []netPrint  `json:"np"`
	Runes     [][3]int    `json:"runes"`
	B64D      []b64Pair   `json:"b64d"`
	B64E      []b64Pair   `json:"b64e"`
	Wf        bool        `json:"wf"`
	// Lite: a file with one large location map (more than 100 range points, several chunks of the
	// accumulator scanner).  Only the two dumps are evaluated in Coq (spec_ok); the per-line model,
	// the oracle tables and the guard computed from them are skipped to keep the case small.
	Lite bool `json:"lite"`
}

// ---------------------------------------------------------------- running the real code

func kvs(m []dnsdata.MapRecord) []kvT {
	r := make([]kvT, 0, len(m))
	for _, x := range m {
		r = append(r, kvT{hlib.Ints(x.Key), hlib.Ints(x.Value)})
	}
	return r
}

func step(line []byte, v2 bool, serial uint32) (st stepT) {
	st.Text = []int{}
	st.KV = []kvT{}
	defer func() {
		if e := recover(); e != nil {
			st = stepT{Err: "panic", Text: []int{}, KV: []kvT{}}
		}
	}()
	c := new(dnsdata.Codec)
	c.Serial = serial
	c.Features.UseV2Keys = v2
	r, err := c.DecodeLn(append([]byte{}, line...))
	if err != nil {
		st.Err = "decode"
		return
	}
	m, err := r.MarshalMap()
	if err != nil {
		st.Err = "map"
		return
	}
	st.KV = kvs(m)
	t, err := r.MarshalText()
	if err != nil {
		st.Err = "text"
		return
	}
	st.Text = hlib.Ints(t)
	return
}

// the tokenizer of data.go, repeated here only to know which texts to feed to the
// library oracles (net.ParseIP, net.ParseCIDR); every field of the line is offered.
func splitFields(line []byte) [][]byte {
	if len(line) == 0 {
		return nil
	}
	b := line[1:]
	is := bytes.IndexByte(b, ':')
	ic := bytes.IndexByte(b, ',')
	sep := []byte(":")
	if is == -1 || ic != -1 && ic < is {
		sep = []byte(",")
	}
	return bytes.SplitN(b, sep, 15)
}

type oracles struct {
	ipp  map[string][]byte
	ips  map[string]string
	cp   map[string]cidrParse
	np   map[string]netPrint
	runs map[rune]bool
	b64d map[string][]byte // only successful decodes
	b64e map[string]string
}

func newOracles() *oracles {
	return &oracles{map[string][]byte{}, map[string]string{}, map[string]cidrParse{}, map[string]netPrint{}, map[rune]bool{},
		map[string][]byte{}, map[string]string{}}
}

// feedSvcb puts the questions of the SVCB parameter code (dnsdata/svcb) to the library for the last
// field of a B/H line: net.ParseIP on every token of an ipv4hint / ipv6hint value, net.IP.String on
// the 16-byte and (ipv4hint) the 4-byte form of what it parsed to, base64 Decode on an echconfig value
// and Encode on what it decoded to.  The tokenisation only decides WHICH questions are asked.
func (o *oracles) feedSvcb(line []byte) {
	if len(line) == 0 || (line[0] != 'B' && line[0] != 'H') {
		return
	}
	f := splitFields(line)
	if len(f) < 6 {
		return
	}
	for _, seg := range bytes.Split(f[5], []byte(";")) {
		kv := bytes.SplitN(seg, []byte("="), 2)
		if len(kv) != 2 {
			continue
		}
		v := bytes.Trim(kv[1], "\"")
		switch string(kv[0]) {
		case "ipv4hint", "ipv6hint":
			for _, tok := range bytes.Split(v, []byte("|")) {
				if len(tok) > 96 {
					continue
				}
				o.feedText(tok)
				if ip := net.ParseIP(string(tok)); ip != nil {
					if ip4 := ip.To4(); ip4 != nil {
						o.ips[string([]byte(ip4))] = net.IP(append([]byte{}, ip4...)).String()
					}
				}
			}
		case "echconfig":
			if _, done := o.b64d[string(v)]; done {
				continue
			}
			out := make([]byte, base64.StdEncoding.DecodedLen(len(v)))
			n, err := base64.StdEncoding.Decode(out, append([]byte{}, v...))
			if err != nil {
				continue
			}
			out = out[:n]
			o.b64d[string(v)] = out
			enc := make([]byte, base64.StdEncoding.EncodedLen(len(out)))
			base64.StdEncoding.Encode(enc, out)
			o.b64e[string(out)] = string(enc)
			// the printed text is parsed back by the guard
			if _, done := o.b64d[string(enc)]; !done {
				back := make([]byte, base64.StdEncoding.DecodedLen(len(enc)))
				if m, err := base64.StdEncoding.Decode(back, append([]byte{}, enc...)); err == nil {
					o.b64d[string(enc)] = back[:m]
				}
			}
		}
	}
}

func (o *oracles) b64tables() ([]b64Pair, []b64Pair) {
	d, e := []b64Pair{}, []b64Pair{}
	for _, k := range sortedKeys(o.b64d) {
		d = append(d, b64Pair{hlib.Ints([]byte(k)), hlib.Ints(o.b64d[k])})
	}
	for _, k := range sortedKeys(o.b64e) {
		e = append(e, b64Pair{hlib.Ints([]byte(o.b64e[k])), hlib.Ints([]byte(k))})
	}
	return d, e
}

func (o *oracles) addIP(ip net.IP) {
	if ip == nil {
		return
	}
	ip16 := ip.To16()
	o.ips[string(ip16)] = ip16.String()
}

func (o *oracles) addNet(ip16 []byte, ones int) {
	n := &net.IPNet{IP: net.IP(append([]byte{}, ip16...)), Mask: net.CIDRMask(ones, 128)}
	s := n.String()
	o.np[fmt.Sprintf("%x/%d", ip16, ones)] = netPrint{hlib.Ints(ip16), ones, hlib.Ints([]byte(s))}
	o.feedText([]byte(s))
}

func (o *oracles) feedText(f []byte) {
	s := string(f)
	if _, done := o.ipp[s]; done {
		return
	}
	ip := net.ParseIP(s)
	if ip != nil {
		o.ipp[s] = []byte(ip.To16())
		o.addIP(ip)
		// the '=' record prints nothing else; '%' falls back to a host network
		if ip.To4() != nil {
			o.addNet(ip.To16(), 128)
		} else {
			o.addNet(ip.To16(), 128)
		}
	} else {
		o.ipp[s] = nil
	}
	if _, n, err := net.ParseCIDR(s); err == nil {
		ones, bits := n.Mask.Size()
		o.cp[s] = cidrParse{hlib.Ints(f), hlib.Ints(n.IP), ones, bits}
		o.addNet(n.IP.To16(), ones+128-bits)
	}
}

func sortedKeys[V any](m map[string]V) []string {
	ks := make([]string, 0, len(m))
	for k := range m {
		ks = append(ks, k)
	}
	sort.Strings(ks)
	return ks
}

func (o *oracles) tables() ([]ipParse, []ipPrint, []cidrParse, []netPrint) {
	ipp, ips, cp, np := []ipParse{}, []ipPrint{}, []cidrParse{}, []netPrint{}
	for _, k := range sortedKeys(o.ipp) {
		if o.ipp[k] != nil {
			ipp = append(ipp, ipParse{hlib.Ints([]byte(k)), hlib.Ints(o.ipp[k])})
		}
	}
	for _, k := range sortedKeys(o.ips) {
		ips = append(ips, ipPrint{hlib.Ints([]byte(k)), hlib.Ints([]byte(o.ips[k]))})
	}
	for _, k := range sortedKeys(o.cp) {
		cp = append(cp, o.cp[k])
	}
	for _, k := range sortedKeys(o.np) {
		np = append(np, o.np[k])
	}
	return ipp, ips, cp, np
}

func (o *oracles) feedLine(line []byte) {
	for _, f := range splitFields(line) {
		o.feedText(f)
	}
	o.feedSvcb(line)
}

func runLine(line []byte, v2 bool, serial uint32, class string, wf bool) lineCase {
	c := lineCase{Kind: "line", Class: class, V2: v2, Serial: serial, Wf: wf, Line: hlib.Ints(line)}
	if len(line) > 0 {
		c.T = string(line[:1])
	}
	c.S1 = step(line, v2, serial)
	empty := stepT{Err: "skip", Text: []int{}, KV: []kvT{}}
	c.S2, c.S3 = empty, empty
	o := newOracles()
	o.feedLine(line)
	// the empty network text of parseipnet
	o.addNet(net.IPv4zero.To16(), 96)
	if c.S1.Err == "" {
		t1 := hlib.Unints(c.S1.Text)
		o.feedLine(t1)
		c.S2 = step(t1, v2, serial)
		if c.S2.Err == "" {
			t2 := hlib.Unints(c.S2.Text)
			o.feedLine(t2)
			c.S3 = step(t2, v2, serial)
		}
	}
	// the texts the library prints for parsed values are parsed back by the guard
	for _, k := range sortedKeys(o.ips) {
		o.feedText([]byte(o.ips[k]))
	}
	c.IPP, c.IPS, c.CP, c.NP = o.tables()
	c.B64D, c.B64E = o.b64tables()
	c.Runes = runeOracle([][]byte{line, hlib.Unints(c.S1.Text)})
	return c
}

// ---------------------------------------------------------------- RocksDB dump

func dumpRDB(dir string) ([]dumpEnt, error) {
	opts := rocksdb.NewOptions()
	db, err := rocksdb.OpenDatabase(dir, true, false, opts)
	if err != nil {
		return nil, err
	}
	defer db.CloseDatabase()
	ro := rocksdb.NewDefaultReadOptions()
	defer ro.FreeReadOptions()
	it := db.CreateIterator(ro)
	defer it.FreeIterator()
	var res []dumpEnt
	for it.SeekToFirst(); it.IsValid(); it.Next() {
		k := append([]byte{}, it.Key()...)
		v := append([]byte{}, it.Value()...)
		var vals [][]byte
		for len(v) > 0 {
			if len(v) < 4 {
				return nil, fmt.Errorf("short value under key %x", k)
			}
			n := int(binary.LittleEndian.Uint32(v))
			if len(v) < 4+n {
				return nil, fmt.Errorf("truncated value under key %x", k)
			}
			vals = append(vals, v[4:4+n])
			v = v[4+n:]
		}
		sort.Slice(vals, func(i, j int) bool { return bytes.Compare(vals[i], vals[j]) < 0 })
		e := dumpEnt{K: hlib.Ints(k), Vs: [][]int{}}
		for _, x := range vals {
			e.Vs = append(e.Vs, hlib.Ints(x))
		}
		res = append(res, e)
	}
	if err := it.GetError(); err != nil {
		return nil, err
	}
	if res == nil {
		res = []dumpEnt{}
	}
	return res, nil
}

func compileDump(scratch string, text []byte, serial uint32, v2 bool, builder bool) (d []dumpEnt, errs string) {
	d = []dumpEnt{}
	defer func() {
		if e := recover(); e != nil {
			errs = "panic"
		}
	}()
	dir, err := os.MkdirTemp(scratch, "c09db-")
	if err != nil {
		return d, "mkdir"
	}
	defer os.RemoveAll(dir)
	if _, err := rdb.Compile(bytes.NewReader(text), serial, dir, rdb.CompilationOptions{UseV2KeySyntax: v2, UseBuilder: builder, NumCPU: 2, BatchNumParallel: 2}); err != nil {
		return d, "compile"
	}
	dd, err := dumpRDB(dir)
	if err != nil {
		return d, "dump: " + err.Error()
	}
	return dd, ""
}

// dropCR is what bufio.ScanLines does to the end of a line
func dropCR(l []byte) []byte {
	if len(l) > 0 && l[len(l)-1] == '\r' {
		return l[:len(l)-1]
	}
	return l
}

func joinLines(ls [][]byte) []byte {
	var b bytes.Buffer
	for _, l := range ls {
		b.Write(l)
		b.WriteByte('\n')
	}
	return b.Bytes()
}

func intsLines(ls [][]byte) [][]int {
	r := make([][]int, 0, len(ls))
	for _, l := range ls {
		r = append(r, hlib.Ints(l))
	}
	return r
}

func runFile(scratch string, lines [][]byte, v2 bool, serial, preSerial uint32, class string, wf bool) fileCase {
	builder := strings.Contains(class, "builder")
	lite := strings.Contains(class, "bigmap")
	fc := fileCase{Kind: "file", Class: class, V2: v2, Serial: serial, PreSerial: preSerial, File: intsLines(lines), Wf: wf,
		Pre: [][]int{}, Orig: []dumpEnt{}, PDump: []dumpEnt{}, AccKV: []kvT{}, SoaN: []int{}}
	o := newOracles()
	o.addNet(net.IPv4zero.To16(), 96)
	text := joinLines(lines)
	if strings.Contains(class, "noeol") {
		text = bytes.TrimSuffix(text, []byte("\n")) // the last line has no newline
	}
	// the preprocessor as cmd/dnsrocks-preproc configures it
	var pre bytes.Buffer
	func() {
		defer func() {
			if e := recover(); e != nil {
				fc.PreErr = "panic"
			}
		}()
		codec := new(dnsdata.Codec)
		codec.Acc.Ranger.Enable()
		codec.Acc.NoPrefixSets = true
		codec.NoRnetOutput = true
		codec.Serial = preSerial
		if err := codec.Preprocess(bytes.NewReader(append([]byte{}, text...)), &pre); err != nil {
			fc.PreErr = "error"
		}
	}()
	if fc.PreErr == "" {
		// the written text read back the way every consumer reads it (bufio.ScanLines)
		sc := bufio.NewScanner(bytes.NewReader(pre.Bytes()))
		sc.Buffer(make([]byte, 1<<20), 1<<24)
		for sc.Scan() {
			fc.Pre = append(fc.Pre, hlib.Ints(append([]byte{}, sc.Bytes()...)))
		}
	}
	// the accumulator's own records for the original lines (what compile appends)
	func() {
		defer func() { recover() }()
		codec := new(dnsdata.Codec)
		codec.Acc.Ranger.Enable()
		codec.Acc.NoPrefixSets = true
		codec.NoRnetOutput = true
		codec.Serial = serial
		codec.Features.UseV2Keys = v2
		for _, l := range lines {
			t := bytes.TrimLeft(dropCR(l), " ")
			if len(t) < 2 || t[0] == '#' {
				continue
			}
			if _, err := codec.DecodeLn(append([]byte{}, t...)); err != nil {
				// the preprocessor decodes only % and Z lines (an error there ends its run); a line of
				// another type that does not decode is written through and does not touch the accumulator
				if t[0] == '%' || t[0] == 'Z' {
					return
				}
				continue
			}
		}
		m, err := codec.Acc.MarshalMap()
		if err != nil {
			return
		}
		// canonical order: the goroutine per map makes the order of maps arbitrary
		sort.SliceStable(m, func(i, j int) bool { return bytes.Compare(m[i].Key, m[j].Key) < 0 })
		fc.AccKV = kvs(m)
		for _, x := range m {
			if len(x.Key) >= 22 {
				o.addIP(net.IP(append([]byte{}, x.Key[6:22]...)))
			}
		}
	}()
	all := append([][]byte{}, lines...)
	for _, l := range lines {
		o.feedLine(bytes.TrimLeft(dropCR(l), " "))
	}
	for _, l := range fc.Pre {
		o.feedLine(hlib.Unints(l))
		all = append(all, hlib.Unints(l))
	}
	// the texts the library prints for parsed values are parsed back by the guard
	for _, k := range sortedKeys(o.ips) {
		o.feedText([]byte(o.ips[k]))
	}
	fc.IPP, fc.IPS, fc.CP, fc.NP = o.tables()
	fc.B64D, fc.B64E = o.b64tables()
	fc.Runes = runeOracle(all)
	if lite {
		fc.Lite = true
		fc.IPP, fc.IPS, fc.CP, fc.NP, fc.Runes, fc.AccKV = []ipParse{}, []ipPrint{}, []cidrParse{}, []netPrint{}, [][3]int{}, []kvT{}
		fc.B64D, fc.B64E = []b64Pair{}, []b64Pair{}
	}
	for _, l := range lines {
		z := 0
		if len(l) > 0 && l[0] == 'Z' {
			z = 1
		}
		fc.SoaN = append(fc.SoaN, z)
	}
	fc.Orig, fc.OrigErr = compileDump(scratch, text, serial, v2, builder)
	if fc.PreErr == "" {
		fc.PDump, fc.PErr = compileDump(scratch, pre.Bytes(), serial, v2, builder)
	} else {
		fc.PErr = "skip"
	}
	return fc
}

// ---------------------------------------------------------------- main

func run(a *hlib.Args, e *hlib.Emitter) error {
	if a.Replay != "" {
		cs, err := hlib.ReadReplay(a.Replay)
		if err != nil {
			return err
		}
		for _, m := range cs {
			var kind, class string
			var v2, wf bool
			var serial, preSerial uint32
			json.Unmarshal(m["kind"], &kind)
			json.Unmarshal(m["class"], &class)
			json.Unmarshal(m["v2"], &v2)
			json.Unmarshal(m["wf"], &wf)
			json.Unmarshal(m["serial"], &serial)
			if kind == "file" {
				var file [][]int
				json.Unmarshal(m["file"], &file)
				if strings.HasPrefix(class, "file:") {
					class = strings.TrimPrefix(class, "file:")
				}
				json.Unmarshal(m["pre_serial"], &preSerial)
				var ls [][]byte
				for _, l := range file {
					ls = append(ls, hlib.Unints(l))
				}
				e.Emit(runFile(a.Scratch, ls, v2, serial, preSerial, class, wf))
			} else {
				var line []int
				json.Unmarshal(m["line"], &line)
				e.Emit(runLine(hlib.Unints(line), v2, serial, class, wf))
			}
		}
		return nil
	}
	scratch := a.Scratch
	if scratch == "" {
		d, err := os.MkdirTemp("/var/tmp", "c09-")
		if err != nil {
			return err
		}
		defer os.RemoveAll(d)
		scratch = d
	}
	scratch = filepath.Clean(scratch)
	// fixed lines: the samples of data_test.go and the boundary shapes named in DESIGN.md
	for i, s := range fixedLines {
		for k, v2 := range []bool{false, true} {
			// the samples of data_test.go under both key layouts, the boundary shapes under one
			if i >= nSampleLines && k != i%2 && a.Tier != "thorough" {
				continue
			}
			wf := !strings.HasPrefix(s, "?")
			e.Emit(runLine([]byte(strings.TrimPrefix(s, "?")), v2, 123456+uint32(i), "fixed", wf))
		}
	}
	r := hlib.NewRng(a.Seed, 9)
	g := &gen{r: r}
	nFiles := a.N / 100
	if nFiles < 10 {
		nFiles = 10
	}
	for i := 0; i < a.N; i++ {
		v2 := r.Chance(1, 2)
		serial := uint32(1 + r.Intn(1<<31))
		if r.Chance(1, 20) {
			serial = 0
		}
		if r.Chance(12, 100) {
			l, class := g.malformed()
			e.Emit(runLine(l, v2, serial, class, false))
		} else {
			l, class := g.line()
			e.Emit(runLine(l, v2, serial, class, true))
		}
	}
	rf := hlib.NewRng(a.Seed, 90)
	gf := &gen{r: rf}
	type job struct {
		ls          [][]byte
		v2          bool
		serial, pre uint32
		class       string
		wf          bool
	}
	var jobs []job
	for i := 0; i < len(fixedFiles); i++ {
		for k, v2 := range []bool{false, true} {
			var ls [][]byte
			for _, s := range fixedFiles[i] {
				ls = append(ls, []byte(s))
			}
			class := "fixedfile"
			if i == 0 && k == 0 && a.Tier == "thorough" {
				class = "fixedfile-builder" // one compilation pair through the bulk builder (1 GB allocation each)
			}
			jobs = append(jobs, job{ls, v2, 1700000000, 1700000000, class, true})
		}
	}
	for i, bf := range badFiles {
		var ls [][]byte
		for _, s := range bf {
			ls = append(ls, []byte(s))
		}
		jobs = append(jobs, job{ls, i%2 == 1, 1700000000, 1700000000, "badfile", false})
	}
	// white space at the end of pass-through lines (it belongs to the last field), white-space lines the
	// compiler skips, lines that begin with blanks; and files the compiler rejects because a line begins
	// with white space other than blanks
	for i, wsf := range wsFiles() {
		jobs = append(jobs, job{wsf.lines, i%2 == 1, 1700000000, 1700000000, wsf.class, wsf.wf})
	}
	wg2 := complib.NewGen(hlib.NewRng(a.Seed, 91), 3, 6)
	// one location map with more than 100 range points (the accumulator scanner hands its lines
	// over in chunks of 100): IPv4, IPv6, and a large map next to small ones
	for i, kind := range []string{"v4", "v6", "multi"} {
		ls := gf.bigMapFile(kind)
		jobs = append(jobs, job{ls, i%2 == 0, 1700000000, 1700000000, "bigmap-" + kind, true})
	}
	for i := 0; i < nFiles; i++ {
		v2 := rf.Chance(1, 2)
		serial := uint32(1 + rf.Intn(1<<31))
		pre := serial
		class := "file"
		if rf.Chance(1, 3) {
			pre = 0
			class = "file-noserial"
		}
		if a.Tier == "thorough" && rf.Chance(1, 10) {
			class += "-builder"
		}
		ls, wf, cl := gf.file()
		if rf.Chance(1, 2) {
			for k := 1 + rf.Intn(3); k > 0; k-- {
				pos := rf.Intn(len(ls) + 1)
				ls = append(ls[:pos:pos], append([][]byte{[]byte(wg2.WsTailLine())}, ls[pos:]...)...)
			}
			cl += "-wstail"
		}
		if rf.Chance(1, 4) {
			pos := rf.Intn(len(ls) + 1)
			ls = append(ls[:pos:pos], append([][]byte{[]byte(wg2.WsSkipLine())}, ls[pos:]...)...)
			cl += "-wsskip"
		}
		if rf.Chance(1, 10) {
			// the compiler rejects the line (ErrBadRType), the preprocessor writes it through
			pos := rf.Intn(len(ls) + 1)
			ls = append(ls[:pos:pos], append([][]byte{[]byte(wg2.WsLeadLine())}, ls[pos:]...)...)
			wf = false
			class = "badfile-wslead"
			cl = ""
		} else if rf.Chance(1, 6) {
			// a line the compiler rejects, often first (nothing buffered yet in the preprocessor)
			bad := badLines[rf.Intn(len(badLines))]
			pos := 0
			if rf.Chance(1, 2) {
				pos = rf.Intn(len(ls) + 1)
			}
			ls = append(ls[:pos:pos], append([][]byte{[]byte(bad)}, ls[pos:]...)...)
			wf = false
			class = "badfile"
			cl = ""
		}
		jobs = append(jobs, job{ls, v2, serial, pre, class + cl, wf})
	}
	// the compilations run in parallel; the cases are emitted in generation order
	res := make([]fileCase, len(jobs))
	sem := make(chan struct{}, 6)
	var wg sync.WaitGroup
	for i := range jobs {
		wg.Add(1)
		sem <- struct{}{}
		go func(i int) {
			defer wg.Done()
			defer func() { <-sem }()
			j := jobs[i]
			res[i] = runFile(scratch, j.ls, j.v2, j.serial, j.pre, j.class, j.wf)
		}(i)
	}
	wg.Wait()
	for i := range res {
		e.Emit(res[i])
	}
	return nil
}

func main() {
	log.SetOutput(io.Discard)
	hlib.Main(run)
}
