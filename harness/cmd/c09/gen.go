package main

import (
	"bytes"
	"fmt"
	"net"
	"strconv"
	"strings"
	"unicode"
	"unicode/utf8"

	"github.com/facebookincubator/dns/dnsrocks/dnsdata/quote"

	"verifharness/hlib"
)

// the sample lines of dnsdata/data_test.go followed by boundary shapes; a leading '?'
// marks a line that makes no claim of being well formed (the '?' is not part of a
// record type, such lines are rejected with ErrBadRType)
const nSampleLines = 57

var fixedLines = []string{
	"%a1,2001:db8::/32,m2",
	"%\\141b:192.168.1.0/24:c\001",
	"%ab,192.168.1.0/24,mn",
	"%ab,192.168.1.0/24",
	"%\\000\\052,197.241.0.0/23,c\\000",
	"%\\000\\020,66.220.145.174,i\\000",
	"%\\000\\013,,i\\000",
	"Z\\164est.Com,a.ns.tes\\164.com,dns.\\164est.com,999,7200,1800,604800,120,120,,",
	"Zt.org,a.ns.t.org,dns.t.org,111,7201,1801,604801,121,119,,",
	"Zt.org,sec.ns.t.org,nsadm.t.org,222,7202,1802,604802,122,118,,a\\142",
	"Zx.org,a.ns.x.org,dns.x.org,,,,,,,,",
	"Zlogdevice.io,a.ns.facebook.com,dns.facebook.com,22,14400,1800,604800,3600,3600",
	"Zlogdevice...io,a.ns..facebook.com.,dns.facebook.com..,22,14400,1800,604800,3600,3600",
	".p\\141nic.mil:1.8.7.55:a",
	"&s\\145rious.panic.mil,fd09:14f5:dead:beef:1::35,ns7.p\\141nic.mil",
	"&abc.x.org,fd09:14f5:dead:beef:1::34,ns2.dot.com,3600,,x\\171",
	"&bistro.io,,b.ns.facebook.com,172800",
	"+button.pani\\143.mil:1.2.3.4",
	"+cup.panic.mil,fd0a:14f5:dead:beef:1::36",
	"+button.panic.mil:1.2.3.4:7200::v\\141",
	"+*.grid.example.com,10.10.10.10,3600",
	"+2cthefacebook.com,102.132.96.18,300,,\\000\\047,50000",
	`+2cthefacebook.com,102.132.96.18,300,,\000",50000`,
	"=button.p\\141nic.mil:1.8.7.108",
	"=feed.panic.mil,fc0a:14f5:dead:beef:1::37,86399",
	"=button.pani\\143.mil:1.8.7.108:3600::\\146l",
	"=*.ghe.oculusvr.com,52.8.73.118,300",
	"@stor\\145.com:1.2.3.44:m\\141il.store.com",
	"@creep.net,fb0a:14f5:dead:beef:1::38,a,20,7200",
	"@creep.de,fb0a:14f5:dead:beef:2::38,bb,20,7200,,y\\172",
	"@adsmail.facebook.com,,mx01.facebookmail.com,10,3600",
	"Sdelta.net:1.2.3.45:1.db.delta.net:10::443",
	"Sgru\\142.org,fb0a:14f5:dead:beef:1::39,primary,20,99,80,7200,,l\\061",
	"Sdex.com:1.2.3.55:1.db.d\\145lta.net:20::80:::d\\145",
	"C\\145arth.pla.net:some.infr\\141.net",
	"Cfly.air.com,www.example.com,7200,,l\\062",
	"C*.0.discoverapp.com,z-m.c10r.facebook.com,7200",
	"Cr.registrarsec.com,Registrar-Frontend-1730073353.us-west-2.elb.amazonaws.com,3600",
	"^168.192.in-addr.\\141rpa:some.host.n\\145t",
	"^fe.ff.ip6.arpa,host1.local,7200,,l\\065",
	"'whatis.example.com,blah blah blah,7200,,l\\066",
	"'wh\\141tis.example.com,1234 \\001",
	"'*.ads.x.com,v=spf1 a ~all,7200",
	"'facebookmx.com,v=spf1 ip4:69.63.178.128/25 ip4:69.63.184.0/25 ip4:66.220.144.128/25 ip4:66.220.155.128/25 ip4:69.171.232.128/25 ip4:66.220.157.0/25 -all,3600",
	":some.custom.n\\145t,99,some t\\145xt,3600,,l\\141",
	":ext.fb.com,98,\\001\\002\\003\\004",
	":ext.fb.com,98,\\001\\002\\003\\004,3600,,c\\001",
	"Mfbasic.n\\145t,c\\000",
	"M*.www.example.com,im",
	"8www.fac\\145book.com,i8",
	"!m1,0.0.0.0",
	"!m1,0.0.0.0,0,de",
	"!m1,2a00:1fa0:42d8::,64,a\\x01",
	"B_8080._foo.facebook.com,bar.facebook.com,300,\\000\\000,0",
	"Hfacebook.com,star-mini.c10r.facebook.com,300,\\000\\000,0",
	"Hstar-mini.c10r.facebook.com,.,300,\\000\\000,1,ipv4hint=\"1.2.3.4|2.3.4.5\";mandatory=\"ipv4hint|alpn|ipv6hint\";alpn=h2|h3;ipv6hint=face:b00c::;echconfig=\"dHJhZmZpYw==\";no-default-alpn=;port=8080",
	"Hstar-mini.c10r.facebook.com,.,300,,1,port=53;no-default-alpn=\"\"",
	// boundary shapes
	"Zexample.com,a.ns.example.com,dns.example.com,0,7200,1800,604800,120,120,,",     // explicit serial 0 (F12)
	"Zexample.com,a.ns.example.com,dns.example.com,4294967295,0,0,0,0,0,,ab",         // extreme numbers
	"Zexample.com,a.ns.example.com,dns.example.com,4294967296,7200,1800,604800,120,", // serial out of range -> default
	"Hexample.com,.,300,,1,ipv6hint=::ffff:1.2.3.4",                                  // F8
	"Bexample.com,.,300,,1,ipv6hint=2001:db8::1|::ffff:10.0.0.1",                     // F8
	"H*.example.com,svc.example.com,300,,1,alpn=h2",                                  // wildcard SVCB owner
	"B*.example.com,*.svc.example.com,300,ab,0",                                      // wildcard SVCB owner and target
	"&example.com,,a.,3600", // single-label absolute name server
	"@example.com,,mail.,10,3600",
	"Sexample.com,,srv.,1,2,3",
	"&example.com,1.2.3.4,a",
	"&example.com,,.,3600",
	".example.com,1.2.3.4,a,0",
	".example.com,,a.ns.example.net,300,,xy",
	"..,1.2.3.4,a",
	"+.,1.2.3.4",
	"+*..,1.2.3.4",
	"+*.,1.2.3.4",
	"+,1.2.3.4",
	"+example.com,::ffff:1.2.3.4,300",
	"+example.com,0:0:0:0:0:ffff:102:304",
	"+example.com,2001:DB8:0:0:0:0:0:1,,,,0",
	"+example.com,1.2.3.4,4294967295,,\\000\\000,4294967295",
	"+example.com,,300",
	"=example.com,,300",
	"=*.example.com,2001:db8::1,300,,xy",
	"+a\\054b.c\\072d.example.com,1.2.3.4",
	"+a\\\\b.\"q\".example.com,1.2.3.4",
	"+\\303\\251.example.com,1.2.3.4",
	"+\303\251.\\200\\377.example.com,1.2.3.4",
	"+\303\211cole.EXAMPLE.com,1.2.3.4", // upper-case UTF-8 letter: keys are lower-cased A-Z only
	"M\\303\\211.Example.com,ab",
	"'example.com,a\\054b\\072c \\\\ \" \\000\\177\\200\\377 \303\251",
	"'example.com:text, with comma:300",
	"'example.com," + strings.Repeat("x", 127) + ",300",
	"'example.com," + strings.Repeat("y", 128) + ",300",
	"'example.com," + strings.Repeat("z", 300) + ",300",
	"'example.com,,300",
	":example.com,65535,\\000\\001,300",
	":example.com,65537,abc,300",
	":example.com,0,,300",
	"@example.com,1.2.3.4,a,65536,300",
	"Sexample.com,1.2.3.4,a,65535,65535,65535,300",
	"Sexample.com,1.2.3.4,a,65536,1,1,300",
	"Cexample.com,.,300",
	"Cexample.com,,300",
	"^4.3.2.1.in-addr.arpa,host.example.com.",
	"M*.,\\000\\001",
	"Mexample.com,",
	"Mexample.com,a",
	"8example.com,abc",
	"!m1,1.2.3.4,24,ab",
	"!m1,1.2.3.4,32,\\000\\000",
	"!m1,::ffff:1.2.3.4,104,ab",
	"!m1,1.2.3.4,200,ab",
	"!m1,1.2.3.4,8",
	"!m1,::,0,ab",
	"!\\000\\001,::1:0:0:0",
	"!m,ffff:ffff:ffff:ffff:ffff:ffff:ffff:ffff,128,zz",
	"%ab,10.0.0.0/8,m1",
	"%ab,::ffff:10.0.0.0/104,m1",
	"%ab,2001:db8::/32",
	"%ab,::/0,m1",
	"%ab,0.0.0.0/0,m1",
	"%,1.2.3.4",
	"%ab,2001:db8::1",
	"%ab,10.1.2.3/8,m1",
	"?%ab,::ffff:0:0/90,m1",
	"?+.*.example.com,1.2.3.4",
	"?M.*.example.com,ab",
	"?&example.com,,,3600",
	"?&.,,",
	"?+example.com,1.2.3.4,300,,abc",
	"?+example.com,1.2.3.4,300,,\\x",
	"?+exa\\mple.com,1.2.3.4",
	"?Z",
	"?%",
	"?",
	"?#comment",
	"?Xexample.com,1.2.3.4",
	"?Halpn.example.com:.:300::1:alpn=a,b",
	"?!m1,zzz,5,ab",
	// B/H, modelled since the SVCB extension of Model/Text.v
	"H*.Example.com:svc.example.com.:300:ab:1:port=\"443\";alpn=h2|h3;no-default-alpn=",
	"Bexample.com,svc.example.com,,,,ipv4hint=\"::ffff:10.0.0.1|1.2.3.4\";echconfig=\"dHJh\nZmZpYw==\"",
	"Hexample.com,.,300,,65535,mandatory=port|alpn;alpn=\"a\\b|c=d\";port=00443;",
	"Hexample.com,.,300,,1,alpn=h2;;bogus=1",
	"Bexample.com,x..example..com.,4294967295,\\000\\000,65536,ipv6hint=2001:DB8:0:0:0:0:0:1|::",
	"?Bx.example.com,*.*.svc.example.com,300,,1", // the target loses a second \"*.\" when its text form is read back
	"?Halpn.example.com,.,300,,1,alpn=h2,h3",     // cut at the comma when read
	"?Hexample.com,.,300,,1,port=443;port=444",
	"?Hexample.com,.,300,,1,mandatory=ipv4hint;alpn=h2",
	"?Hexample.com:.:300::1:ipv6hint=2001:db8::1", // the hint is cut at its first ':'
}

var fixedFiles = [][]string{
	{
		"# comment",
		"",
		"Mexample.com,m1",
		"8example.com,m2",
		"%ab,10.0.0.0/8,m1",
		"%cd,10.1.0.0/16,m1",
		"%ef,2001:db8::/32,m1",
		"%ab,0.0.0.0/0,m2",
		"%xy,::/0,m2",
		"Zexample.com,a.ns.example.com,dns.example.com,,7200,1800,604800,120,120,,",
		"Zexample.org,a.ns.example.org,dns.example.org,77,,,,,,,ab",
		"&example.com,1.2.3.4,a,3600",
		"+www.example.com,1.2.3.4,300,,ab",
		"+www.example.com,2001:db8::1,300",
		"'example.com,hello\\054 world,300",
	},
	{
		"Zexample.com,a.ns.example.com,dns.example.com,0,7200,1800,604800,120,120,,", // F12
		"&example.com,,a.ns.example.com",
	},
	{
		"%ab,192.168.0.0/16,\\000\\000",
		"%cd,192.168.1.0/24,\\000\\000",
		"%ab,192.168.2.0/24,\\000\\000",
		"%ef,::ffff:0:0/96,zz",
		".example.net,10.0.0.1,a,300",
	},
}

// files the compiler rejects; the first two have the bad line first
var badFiles = [][]string{
	{"%,1.2.3.0/24,m1", "+c.example.com,1.2.3.4"},
	{"Zbad.example.com,a.ns.bad.example.com,dns.bad.example.com,,,,,,,,\\x", "+c.example.com,1.2.3.4"},
	{"+a.example.com,1.2.3.4", "%ab,1.2.3.0/33,m1", "+c.example.com,1.2.3.4"},
	{"+a.example.com,1.2.3.4", "+c.example.com,1.2.3.4,,,\\x"},
}

var badLines = []string{
	"%,1.2.3.0/24,m1", "%abc,1.2.3.0/24,m1", "%ab,1.2.3.0/33,m1", "%ab,nonsense,m1", "%\\x,1.2.3.0/24,m1",
	"Zbad.example.com,a.ns.bad.example.com,dns.bad.example.com,,,,,,,,\\x", "+x.example.com,1.2.3.4,,,\\x", "Xbogus.example.com,1.2.3.4",
}

// white space that may end a line: single bytes and UTF-8 sequences bytes.TrimSpace would remove
// (NBSP, NEL, EM SPACE, IDEOGRAPHIC SPACE); a CR only where bufio.ScanLines leaves it alone
var wsTailBytes = []string{" ", "\t", "\v", "\f", "\x85", "\xa0", "\xc2\xa0", "\xc2\x85", "\xe2\x80\x83", "\xe3\x80\x80",
	"  ", " \t", "\t ", " \r", "\r ", "\r\t"}

type wsFile struct {
	lines [][]byte
	class string
	wf    bool
}

func wsFiles() []wsFile {
	bl := func(ss ...string) [][]byte {
		var r [][]byte
		for _, s := range ss {
			r = append(r, []byte(s))
		}
		return r
	}
	shapes := []string{
		"'motd%d.example.org,hello world%s",      // TXT ending in white space
		":gen%d.example.org,99,abc%s",            // generic record data
		"+www%d.example.org,192.0.2.1,300%s",     // TTL: the number does not parse, the default applies
		"+loc%d.example.org,192.0.2.1,300,,ab%s", // location of three bytes or more: none
		"+wt%d.example.org,192.0.2.1,300,,,7%s",  // weight
		"Ccn%d.example.org,target.example.org%s",
		"'empty%d.example.org,%s",
	}
	var tail []string
	for i, t := range wsTailBytes {
		tail = append(tail, fmt.Sprintf(shapes[i%len(shapes)], i, t), fmt.Sprintf(shapes[(i+3)%len(shapes)], i, t))
	}
	tail = append(tail, "Zexample.org,a.ns.example.org,dns.example.org,,7200", "&example.org,192.0.2.53,a,3600")
	skips := []string{"Zexample.org,a.ns.example.org,dns.example.org,5,7200", "&example.org,192.0.2.53,a,3600",
		" ", "\t", " \t", "\r", "  \r", "\v", "    ", "  \xa0", "\f\r", "", "#c", "  # indented comment",
		"  +lead.example.org,192.0.2.7,300", " 'lead2.example.org,text ", "   &example.org,,b.ns.example.org"}
	return []wsFile{
		{bl(tail...), "wsfile-tail", true},
		{bl(tail...), "wsfile-tail", true},
		{bl(skips...), "wsfile-skip", true},
		{bl("+a.example.org,192.0.2.1", "\t+www.example.org,192.0.2.1", "+c.example.org,192.0.2.1"), "badfile-wslead", false},
		{bl("\t\t", "+c.example.org,192.0.2.1"), "badfile-wslead", false},
		{bl("\xc2\xa0#c", "+c.example.org,192.0.2.1"), "badfile-wslead", false},
		// lines that still end in CR after ScanLines dropped one: the CR belongs to the last field, and
		// the preprocessor has to write it so that it is read back (one, two and three CRs in the text)
		{bl("'cr.example.org,abc\r\r", "+c.example.org,192.0.2.1",
			"'cr1.example.org,one\r", "'cr3.example.org,three\r\r\r", "'cr0.example.org,\r\r",
			"+t1.example.org,192.0.2.1,300\r", "+t2.example.org,192.0.2.1,300\r\r", "+t3.example.org,192.0.2.1,300\r\r\r",
			"+l2.example.org,192.0.2.1,300,,a\r\r", "+l3.example.org,192.0.2.1,300,,ab\r\r\r",
			":g2.example.org,99,abc\r\r", "Cc2.example.org,target.example.org\r\r",
			"Zexample.org,a.ns.example.org,dns.example.org,,7200", "&example.org,192.0.2.53,a,3600",
			"\r\r", "#c\r\r"), "wsfile-crcr", true},
		// the last line has no newline (and ends in white space / CR)
		{bl("+a.example.org,192.0.2.1,300", "'last.example.org,no newline "), "wsfile-noeol", true},
		{bl("+a.example.org,192.0.2.1,300", "'last.example.org,no newline\r\r"), "wsfile-noeol-cr", true},
		{bl("Zexample.org,a.ns.example.org,dns.example.org,,7200", "&example.org,192.0.2.53,a,3600", "%ab,10.0.0.0/8,m1"), "wsfile-noeol-net", true},
	}
}

type gen struct{ r *hlib.Rng }

const lowAlpha = "abcdefghijklmnopqrstuvwxyz0123456789-_"

var specials = [][]byte{{','}, {':'}, {'\\'}, {'"'}, {' '}, {'*'}, {0}, {1}, {0x7f}, {0x80}, {0xff}, {0xe9},
	{0xc3, 0xa9}, {0xc3, 0x89}, {0xe2, 0x82, 0xac}, {0xc2, 0xad}, {0xf0, 0x9f, 0x98, 0x80}, {'\n'}, {'\t'}, {'\''}, {'=', 'A'}, {'%'}, {'/'}}

func (g *gen) label() []byte {
	r := g.r
	n := 1 + r.Intn(8)
	var b []byte
	for i := 0; i < n; i++ {
		switch {
		case r.Chance(1, 25):
			b = append(b, specials[r.Intn(len(specials))]...)
		case r.Chance(1, 12):
			b = append(b, byte('A'+r.Intn(26)))
		default:
			b = append(b, lowAlpha[r.Intn(len(lowAlpha))])
		}
	}
	if r.Chance(1, 200) {
		b = r.Bytes(64+r.Intn(10), []byte(lowAlpha)) // longer than a DNS label
	}
	return b
}

// name returns a semantic (unquoted) name of at least min labels
func (g *gen) name(min int) []byte {
	r := g.r
	if min == 0 && r.Chance(1, 40) {
		return []byte(".")
	}
	n := min + r.Intn(4)
	if n == 0 {
		n = 1
	}
	var b []byte
	for i := 0; i < n; i++ {
		if i > 0 {
			b = append(b, '.')
			if r.Chance(1, 60) {
				b = append(b, '.')
			}
		}
		if i > 0 && r.Chance(1, 40) {
			b = append(b, '*')
		} else {
			b = append(b, g.label()...)
		}
	}
	if n >= 2 && r.Chance(1, 6) {
		b = append(b, '.')
		if r.Chance(1, 10) {
			b = append(b, '.')
		}
	}
	return b
}

// enc writes semantic bytes as the text of a field; bytes in raw may be written as they are
func (g *gen) enc(b []byte, raw string) []byte {
	r := g.r
	var o []byte
	oct := func(c byte) { o = append(o, []byte(fmt.Sprintf("\\%03o", c))...) }
	// a raw byte >= 0x80 that is not part of valid UTF-8 is turned into U+FFFD by Bunquote
	// whenever the field also holds a backslash: written raw only inside valid UTF-8
	validUTF8 := utf8.Valid(b)
	for _, c := range b {
		switch {
		case c == '\\':
			switch r.Intn(3) {
			case 0:
				o = append(o, '\\', '\\')
			case 1:
				oct(c)
			default:
				o = append(o, []byte("\\x5c")...)
			}
		case c == ',' || c == ':':
			if strings.IndexByte(raw, c) >= 0 && r.Chance(2, 3) {
				o = append(o, c)
			} else {
				oct(c)
			}
		case c < 0x20 || c == 0x7f:
			if r.Chance(1, 4) {
				o = append(o, []byte(fmt.Sprintf("\\x%02x", c))...)
			} else {
				oct(c)
			}
		case c >= 0x80:
			if validUTF8 && r.Chance(1, 2) {
				o = append(o, c)
			} else {
				oct(c)
			}
		default:
			if r.Chance(1, 25) {
				oct(c)
			} else {
				o = append(o, c)
			}
		}
	}
	return o
}

func (g *gen) ipv4() string {
	r := g.r
	switch r.Intn(8) {
	case 0:
		return []string{"0.0.0.0", "255.255.255.255", "127.0.0.1", "10.0.0.1", "1.2.3.4"}[r.Intn(5)]
	default:
		return fmt.Sprintf("%d.%d.%d.%d", r.Intn(256), r.Intn(256), r.Intn(256), r.Intn(256))
	}
}

func (g *gen) ipv6() string {
	r := g.r
	switch r.Intn(10) {
	case 0:
		return []string{"::", "::1", "ffff:ffff:ffff:ffff:ffff:ffff:ffff:ffff", "2001:db8::", "fe80::1", "::1:0:0:0", "64:ff9b::1.2.3.4"}[r.Intn(7)]
	case 1:
		return "::ffff:" + g.ipv4()
	case 2:
		return fmt.Sprintf("0:0:0:0:0:ffff:%x:%x", r.Intn(65536), r.Intn(65536))
	case 3:
		return fmt.Sprintf("2001:DB8:%X::%X", r.Intn(65536), r.Intn(65536))
	case 4:
		var p []string
		for i := 0; i < 8; i++ {
			p = append(p, fmt.Sprintf("%04x", r.Intn(65536)))
		}
		return strings.Join(p, ":")
	default:
		var p []string
		for i := 0; i < 8; i++ {
			if r.Chance(1, 3) {
				p = append(p, "0")
			} else {
				p = append(p, fmt.Sprintf("%x", r.Intn(65536)))
			}
		}
		return strings.Join(p, ":")
	}
}

// ip returns an address text; colon tells whether ':' may occur
func (g *gen) ip(colon bool) string {
	if colon && g.r.Chance(1, 2) {
		return g.ipv6()
	}
	return g.ipv4()
}

func (g *gen) num(max uint64, defaults ...uint64) string {
	r := g.r
	switch r.Intn(12) {
	case 0:
		return "0"
	case 1:
		return strconv.FormatUint(max, 10)
	case 2:
		return strconv.FormatUint(max-1, 10)
	case 3:
		if len(defaults) > 0 {
			return strconv.FormatUint(defaults[r.Intn(len(defaults))], 10)
		}
		return "1"
	case 4:
		if r.Chance(1, 3) { // out of range, junk, leading zeros: the default applies or the value is kept
			return []string{strconv.FormatUint(max+1, 10), "abc", "+5", "-1", "007", "1e3", " 5", "99999999999999999999"}[r.Intn(8)]
		}
		return strconv.Itoa(r.Intn(100))
	case 5:
		return strconv.FormatUint(r.U64()%(max+1), 10)
	default:
		return strconv.Itoa([]int{60, 300, 3600, 7200, 86400, 2560, 259200}[r.Intn(7)])
	}
}

func (g *gen) loc() []byte {
	r := g.r
	switch r.Intn(10) {
	case 0:
		return []byte{0, 0}
	case 1:
		return []byte{byte(r.Intn(256)), byte(r.Intn(256))}
	case 2:
		return []byte{',', ':'}
	default:
		return []byte{lowAlpha[r.Intn(26)], lowAlpha[r.Intn(36)]}
	}
}

// optloc is a location or nothing
func (g *gen) optloc() []byte {
	if g.r.Chance(1, 2) {
		return nil
	}
	return g.loc()
}

func (g *gen) lmap() []byte {
	r := g.r
	switch r.Intn(8) {
	case 0:
		return nil
	case 1:
		return []byte{lowAlpha[r.Intn(26)]}
	case 2:
		return []byte{0, 0}
	case 3:
		return []byte{byte(r.Intn(256)), byte(r.Intn(256))}
	default:
		return []byte{lowAlpha[r.Intn(26)], lowAlpha[r.Intn(36)]}
	}
}

func (g *gen) txt() []byte {
	r := g.r
	n := r.Intn(40)
	if r.Chance(1, 8) {
		n = 120 + r.Intn(200)
	}
	var b []byte
	for len(b) < n {
		switch {
		case r.Chance(1, 10):
			b = append(b, specials[r.Intn(len(specials))]...)
		case r.Chance(1, 30):
			b = append(b, byte(r.Intn(256)))
		default:
			{
				const al = "abcdefghijklmnopqrstuvwxyz =~.-/0123456789"
				b = append(b, al[r.Intn(len(al))])
			}
		}
	}
	return b
}

type field struct {
	text     []byte
	optional bool
}

// assemble joins the fields: optional fields are dropped (left empty) at random and
// trailing empty fields are cut at random
func (g *gen) assemble(t byte, sep byte, fs []field) []byte {
	r := g.r
	texts := make([][]byte, len(fs))
	for i, f := range fs {
		texts[i] = f.text
		if f.optional && r.Chance(3, 10) {
			texts[i] = nil
		}
	}
	n := len(texts)
	if r.Chance(3, 4) {
		for n > 2 && len(texts[n-1]) == 0 {
			n--
			if r.Chance(1, 4) {
				break
			}
		}
	}
	if r.Chance(1, 30) && t != 'B' && t != 'H' {
		texts = append(texts[:n], []byte("extra"), []byte("fields"))
		n += 2
	}
	line := []byte{t}
	for i := 0; i < n; i++ {
		if i > 0 {
			line = append(line, sep)
		}
		line = append(line, texts[i]...)
	}
	return line
}

func f(b []byte) field       { return field{b, false} }
func opt(b []byte) field     { return field{b, true} }
func optS(s string) field    { return field{[]byte(s), true} }
func (g *gen) ttl() field    { return optS(g.num(4294967295, 86400, 2560, 259200)) }
func (g *gen) unused() field { return optS([]string{"", "", "", "ts", "12345"}[g.r.Intn(5)]) }
func (g *gen) wild(n []byte) []byte {
	if g.r.Chance(1, 5) {
		return append([]byte("*."), n...)
	}
	return n
}

var svcbMenus = []string{
	"alpn=h2|h3", "alpn=\"h2\"", "alpn=http/1.1", "port=8080", "port=\"53\"", "port=0", "port=65535",
	"ipv4hint=1.2.3.4", "ipv4hint=\"1.2.3.4|2.3.4.5\"", "ipv4hint=::ffff:10.0.0.1",
	"ipv6hint=2001:db8::1", "ipv6hint=\"face:b00c::|2001:db8::2\"", "ipv6hint=::1",
	"echconfig=dHJhZmZpYw==", "echconfig=\"AAEC\"", "no-default-alpn=", "no-default-alpn=\"\"",
}

func (g *gen) svcbParams(colonOK bool) (string, string) {
	r := g.r
	class := ""
	seen := map[string]bool{}
	var ps []string
	n := r.Intn(5)
	for i := 0; i < n; i++ {
		p := svcbMenus[r.Intn(len(svcbMenus))]
		k := p[:strings.IndexByte(p, '=')]
		if seen[k] || (!colonOK && strings.Contains(p, ":")) {
			continue
		}
		seen[k] = true
		ps = append(ps, p)
	}
	if colonOK && !seen["ipv6hint"] && r.Chance(1, 12) {
		ps = append(ps, "ipv6hint=::ffff:"+g.ipv4())
		seen["ipv6hint"] = true
		class = "-f8"
	}
	if len(ps) > 0 && r.Chance(1, 4) {
		var ks []string
		for k := range map[string]bool{"alpn": seen["alpn"], "port": seen["port"], "ipv4hint": seen["ipv4hint"], "ipv6hint": seen["ipv6hint"]} {
			if seen[k] {
				ks = append(ks, k)
			}
		}
		if len(ks) > 0 {
			// map iteration order must not leak into the PRNG-determined output
			for i := 1; i < len(ks); i++ {
				for j := i; j > 0 && ks[j] < ks[j-1]; j-- {
					ks[j], ks[j-1] = ks[j-1], ks[j]
				}
			}
			ps = append(ps, "mandatory="+strings.Join(ks, "|"))
		}
	}
	r.Shuffle(len(ps), func(i, j int) { ps[i], ps[j] = ps[j], ps[i] })
	s := strings.Join(ps, ";")
	if r.Chance(1, 10) && s != "" {
		s += ";"
	}
	return s, class
}

// svcbTargetStarsTwice: the name without one leading "*." has a text form (empty labels dropped)
// that begins with "*." again
func svcbTargetStarsTwice(n []byte) bool {
	n = bytes.TrimPrefix(n, []byte("*."))
	var ls [][]byte
	for _, l := range bytes.Split(n, []byte(".")) {
		if len(l) > 0 {
			ls = append(ls, l)
		}
	}
	return len(ls) >= 2 && string(ls[0]) == "*"
}

var types = []byte("%Z.&+=@SC^':M8!BH")

// line produces a line the generator claims to be well formed
func (g *gen) line() ([]byte, string) {
	r := g.r
	t := types[r.Intn(len(types))]
	sep := byte(',')
	if r.Chance(1, 3) {
		sep = ':'
	}
	colon := sep == ','
	// bytes that may stand unescaped in the fields after the first one
	raw := ":"
	if sep == ':' {
		raw = ","
	}
	class := string(t) + string(sep)
	e := func(b []byte) []byte { return g.enc(b, raw) }
	e0 := func(b []byte) []byte { return g.enc(b, "") } // first field: neither separator
	var fs []field
	switch t {
	case '%':
		var netw string
		switch r.Intn(8) {
		case 0:
			netw = g.ipv4()
		case 1:
			if colon {
				netw = g.ipv6()
			}
		case 2, 3:
			if colon {
				p := r.Intn(129)
				netw = g.ipv6()
				if strings.HasPrefix(netw, "::ffff:") || strings.HasPrefix(netw, "0:0:0:0:0:ffff:") {
					p = 96 + r.Intn(33)
				}
				netw = fmt.Sprintf("%s/%d", netw, p)
			} else {
				netw = fmt.Sprintf("%s/%d", g.ipv4(), r.Intn(33))
			}
		default:
			netw = fmt.Sprintf("%s/%d", g.ipv4(), r.Intn(33))
		}
		fs = []field{f(e0(g.optloc())), f([]byte(netw)), opt(e(g.lmap()))}
	case 'Z':
		ser := g.num(4294967295, 1, 2)
		if ser == "0" || ser == "007" && false {
			class += "-f12"
		}
		fs = []field{f(e0(g.name(1))), f(e(g.name(1))), f(e(g.name(1))), optS(ser),
			optS(g.num(4294967295, 16384)), optS(g.num(4294967295, 2048)), optS(g.num(4294967295, 1048576)), optS(g.num(4294967295, 2560)),
			g.ttl(), g.unused(), opt(e(g.loc()))}
	case '.', '&':
		ns := g.name(1)
		if r.Chance(1, 3) {
			ns = g.label() // relative: x.ns.dom
		}
		fs = []field{f(e0(g.name(0))), optS(g.ip(colon)), f(e(ns)), g.ttl(), g.unused(), opt(e(g.loc()))}
	case '+':
		fs = []field{f(e0(g.wild(g.name(0)))), f([]byte(g.ip(colon))), g.ttl(), g.unused(), opt(e(g.loc())), optS(g.num(4294967295, 1))}
	case '=':
		fs = []field{f(e0(g.wild(g.name(1)))), f([]byte(g.ip(colon))), g.ttl(), g.unused(), opt(e(g.loc()))}
	case '@':
		mx := g.name(1)
		if r.Chance(1, 3) {
			mx = g.label()
		}
		fs = []field{f(e0(g.name(1))), optS(g.ip(colon)), f(e(mx)), optS(g.num(4294967295, 0, 65535, 65536)), g.ttl(), g.unused(), opt(e(g.loc()))}
	case 'S':
		srv := g.name(1)
		if r.Chance(1, 3) {
			srv = g.label()
		}
		fs = []field{f(e0(g.name(1))), optS(g.ip(colon)), f(e(srv)), optS(g.num(65535)), optS(g.num(65535)), optS(g.num(65535)), g.ttl(), g.unused(), opt(e(g.loc()))}
	case 'C':
		fs = []field{f(e0(g.wild(g.name(1)))), f(e(g.name(0))), g.ttl(), g.unused(), opt(e(g.loc()))}
	case '^':
		fs = []field{f(e0(g.name(1))), f(e(g.name(1))), g.ttl(), g.unused(), opt(e(g.loc()))}
	case '\'':
		fs = []field{f(e0(g.wild(g.name(1)))), opt(e(g.txt())), g.ttl(), g.unused(), opt(e(g.loc()))}
	case ':':
		fs = []field{f(e0(g.name(1))), f([]byte(g.num(65535, 99, 257, 65536+16))), opt(e(g.txt())), g.ttl(), g.unused(), opt(e(g.loc()))}
	case 'M', '8':
		fs = []field{f(e0(g.wild(g.name(0)))), f(e(g.lmap()))}
	case '!':
		ip := g.ip(colon)
		max := 128
		if !strings.Contains(ip, ":") {
			max = 32
		}
		ml := strconv.Itoa(r.Intn(max + 1))
		if r.Chance(1, 10) {
			ml = g.num(255)
		}
		if r.Chance(1, 3) {
			fs = []field{f(e0(g.lmap())), f([]byte(ip))}
		} else {
			fs = []field{f(e0(g.lmap())), f([]byte(ip)), f([]byte(ml)), f(e(g.loc()))}
		}
	case 'B', 'H':
		ps, c := g.svcbParams(colon)
		class += c
		own := g.name(1)
		if r.Chance(1, 8) {
			own = append([]byte("*."), own...)
			class += "-wild"
		}
		tgt := g.name(0)
		for svcbTargetStarsTwice(tgt) {
			// getdom drops one leading "*." of the target; a second one is printed and dropped when the
			// text form is read back (outside the guard, fixed line "?Bx.example.com,*.*.svc...")
			tgt = g.name(0)
		}
		fs = []field{f(e0(own)), f(e(tgt)), g.ttl(), opt(e(g.loc())), optS(g.num(65535, 0, 1)), optS(ps)}
	}
	return g.assemble(t, sep, fs), class
}

// malformed produces lines without any claim: broken escapes, unknown types, odd names
func (g *gen) malformed() ([]byte, string) {
	r := g.r
	l, _ := g.line()
	switch r.Intn(9) {
	case 0: // unknown record type
		l[0] = "XxQ?0 -"[r.Intn(7)]
		return l, "bad-type"
	case 1: // broken escape somewhere
		p := 1 + r.Intn(len(l))
		esc := [][]byte{[]byte("\\"), []byte("\\x"), []byte("\\9"), []byte("\\400"), []byte("\\u12"), []byte("\\'"), []byte("\\\""), []byte("\\ud800")}[r.Intn(8)]
		l = append(l[:p:p], append(append([]byte{}, esc...), l[p:]...)...)
		return l, "bad-escape"
	case 2: // location of the wrong length / bad escape in the location
		return append(l, []byte(",,,,,,,,,,abc")...), "long-tail"
	case 3: // leading / doubled dots, empty relative names
		t := "&@S.+CM8"[r.Intn(8)]
		n := [][]byte{[]byte(".*.example.com"), []byte(".example.com"), []byte(".."), []byte("..a"), []byte("a."), []byte(".a"), []byte("")}[r.Intn(7)]
		x := [][]byte{[]byte(""), []byte("a."), []byte(".a"), []byte("a.."), []byte("."), []byte("b")}[r.Intn(6)]
		return []byte(fmt.Sprintf("%c%s,%s,%s,300", t, n, []string{"", "1.2.3.4"}[r.Intn(2)], x)), "odd-names"
	case 4: // truncated line
		return l[:r.Intn(len(l)+1)], "truncated"
	case 5: // random bytes after a valid type
		b := r.Bytes(r.Intn(30), []byte("abc.,:\\019*%/ \"=|;"))
		return append([]byte{types[r.Intn(len(types))]}, b...), "soup"
	case 6: // bad addresses and networks
		t := "+=&%!"[r.Intn(5)]
		a := []string{"1.2.3", "1.2.3.256", "01.2.3.4", "::g", "fe80::1%eth0", "1.2.3.4/33", "::/129", "::ffff:0:0/90", "::ffff:1.2.3.0/24", "/8", "1.2.3.4/"}[r.Intn(11)]
		if t == '!' || t == '%' {
			return []byte(fmt.Sprintf("%cab,%s,m1", t, a)), "bad-addr"
		}
		return []byte(fmt.Sprintf("%cexample.com,%s,300", t, a)), "bad-addr"
	case 7: // SVCB parameter errors
		p := []string{"alpn=", "port=65536", "port=x", "ipv6hint=1.2.3.4", "ipv4hint=::1", "mandatory=alpn", "mandatory=mandatory;alpn=h2", "alpn=h2;alpn=h3", "bogus=1", "noequals", "echconfig=***", "alpn=a,b", "no-default-alpn=x"}[r.Intn(13)]
		return []byte(fmt.Sprintf("%cexample.com,.,300,,1,%s", "BH"[r.Intn(2)], p)), "bad-svcb"
	default:
		if r.Chance(1, 2) {
			return []byte{}, "empty"
		}
		return []byte{types[r.Intn(len(types))]}, "type-only"
	}
}

// file produces a data file with subnet lines, SOA lines and a few other records
func (g *gen) file() ([][]byte, bool, string) {
	r := g.r
	var ls [][]byte
	class := ""
	maps := [][]byte{[]byte("m1"), []byte("m2"), {0, 0}, []byte("\\:")}
	nm := 1 + r.Intn(3)
	seenNet := map[string]bool{}
	zones := []string{"example.com", "example.org", "sub.example.com", "Example.NET"}
	nz := 1 + r.Intn(3)
	for i := 0; i < nz; i++ {
		z := zones[r.Intn(len(zones))]
		ser := ""
		switch r.Intn(6) {
		case 0, 1:
			ser = strconv.Itoa(1 + r.Intn(1<<30))
		case 2:
			ser = "4294967295"
		case 3:
			if r.Chance(1, 2) {
				ser = "0"
				class += "-f12"
			}
		}
		line := fmt.Sprintf("Z%s,a.ns.%s,dns.%s,%s", z, z, z, ser)
		if r.Chance(1, 2) {
			line += fmt.Sprintf(",%s,%s,%s,%s,%s,,%s", g.num(4294967295, 16384), g.num(4294967295, 2048), g.num(4294967295, 1048576), g.num(4294967295, 2560), g.num(4294967295, 2560), string(g.enc(g.optloc(), ":")))
		}
		if r.Chance(1, 4) {
			line = strings.ReplaceAll(strings.ReplaceAll(line, ":", "\\072"), ",", ":")
		}
		ls = append(ls, []byte(line))
		ls = append(ls, []byte(fmt.Sprintf("&%s,%s,a.ns.%s,%s", z, g.ipv4(), z, g.num(4294967295, 259200))))
		ls = append(ls, []byte(fmt.Sprintf("+www.%s,%s,300,,%s", z, g.ip(true), string(g.enc(g.optloc(), ":")))))
		if r.Chance(1, 2) {
			ls = append(ls, []byte(fmt.Sprintf("M%s,%s", z, string(g.enc(maps[r.Intn(nm)], "")))))
		}
		if r.Chance(1, 2) {
			ls = append(ls, []byte(fmt.Sprintf("8%s,%s", z, string(g.enc(maps[r.Intn(nm)], "")))))
		}
	}
	nn := r.Intn(14)
	for i := 0; i < nn; i++ {
		m := maps[r.Intn(nm)]
		var netw string
		switch r.Intn(10) {
		case 0:
			netw = "0.0.0.0/0"
		case 1:
			netw = "::/0"
		case 2, 3:
			netw = fmt.Sprintf("2001:db8:%x::/%d", r.Intn(4)<<12, []int{32, 36, 40, 48, 64}[r.Intn(5)])
		case 4:
			netw = fmt.Sprintf("10.%d.%d.%d", r.Intn(4), r.Intn(4), r.Intn(4))
		default:
			p := []int{8, 12, 16, 20, 24, 28, 32}[r.Intn(7)]
			netw = fmt.Sprintf("10.%d.%d.0/%d", r.Intn(4), r.Intn(4)<<4, p)
		}
		// the same subnet is not declared twice inside one map
		k := string(m) + "|" + canonNet(netw)
		if seenNet[k] {
			continue
		}
		seenNet[k] = true
		sep := ","
		ls = append(ls, []byte(fmt.Sprintf("%%%s%s%s%s%s", string(g.enc(g.loc(), "")), sep, netw, sep, string(g.enc(m, "")))))
	}
	if r.Chance(1, 3) {
		ls = append(ls, []byte("# a comment"), []byte(""))
	}
	if r.Chance(1, 2) {
		l, _ := g.line()
		if len(l) > 1 && l[0] != '%' && l[0] != 'Z' && !strings.Contains(string(l), "ipv6hint=::ffff:") {
			ls = append(ls, l)
		}
	}
	r.Shuffle(len(ls), func(i, j int) { ls[i], ls[j] = ls[j], ls[i] })
	return ls, true, class
}

// bigMapFile: a file whose map "m1" holds 60-150 distinct subnets (disjoint ones, some nested in
// others), so that its rearranger yields well over 100 range points
func (g *gen) bigMapFile(kind string) [][]byte {
	r := g.r
	var ls [][]byte
	loc := func() string { return string([]byte{lowAlpha[r.Intn(26)], lowAlpha[r.Intn(26)]}) }
	add := func(netw, m string) { ls = append(ls, []byte(fmt.Sprintf("%%%s,%s,%s", loc(), netw, m))) }
	n := 60 + r.Intn(91)
	seen := map[string]bool{}
	v4 := func(m string) {
		x, y := r.Intn(200), r.Intn(256)
		k := fmt.Sprintf("%d.%d", x, y)
		if seen[m+k] {
			return
		}
		seen[m+k] = true
		add(fmt.Sprintf("10.%d.%d.0/24", x, y), m)
		if r.Chance(1, 5) {
			add(fmt.Sprintf("10.%d.%d.%d/28", x, y, r.Intn(16)<<4), m)
		}
	}
	v6 := func(m string) {
		x := r.Intn(60000)
		k := fmt.Sprintf("v6-%d", x)
		if seen[m+k] {
			return
		}
		seen[m+k] = true
		add(fmt.Sprintf("2001:db8:%x::/48", x), m)
		if r.Chance(1, 5) {
			add(fmt.Sprintf("2001:db8:%x:%x::/64", x, r.Intn(65536)), m)
		}
	}
	for i := 0; i < n; i++ {
		switch kind {
		case "v4":
			v4("m1")
		case "v6":
			v6("m1")
		default:
			if r.Chance(1, 2) {
				v4("m1")
			} else {
				v6("m1")
			}
		}
	}
	if r.Chance(1, 2) {
		add("10.0.0.0/8", "m1")
	}
	if r.Chance(1, 2) {
		add("0.0.0.0/0", "m1")
	}
	if kind != "v4" && r.Chance(1, 2) {
		add("::/0", "m1")
	}
	if kind == "multi" {
		for i := 0; i < 5; i++ {
			v4("m2")
			v6("\\000\\001")
		}
	}
	ls = append(ls,
		[]byte("Zexample.com,a.ns.example.com,dns.example.com,,7200,1800,604800,120,120,,"),
		[]byte("&example.com,1.2.3.4,a,3600"),
		[]byte("Mexample.com,m1"),
		[]byte("8example.com,m1"),
		[]byte("+www.example.com,1.2.3.4,300,,ab"))
	r.Shuffle(len(ls), func(i, j int) { ls[i], ls[j] = ls[j], ls[i] })
	return ls
}

func canonNet(s string) string {
	if _, n, err := net.ParseCIDR(s); err == nil {
		return n.String()
	}
	return s + "/host"
}

// runeOracle reports strconv.IsPrint and unicode.ToLower for the runes >= 0x80 of the unquoted fields
func runeOracle(lines [][]byte) [][3]int {
	seen := map[rune]bool{}
	res := [][3]int{}
	add := func(u []byte) {
		for i := 0; i < len(u); {
			ru, w := utf8.DecodeRune(u[i:])
			i += w
			if ru >= 0x80 && !seen[ru] {
				seen[ru] = true
				p := 0
				if strconv.IsPrint(ru) {
					p = 1
				}
				res = append(res, [3]int{int(ru), p, int(unicode.ToLower(ru))})
			}
		}
	}
	for _, line := range lines {
		for _, fld := range splitFields(line) {
			u, err := quote.Bunquote(append([]byte{}, fld...))
			if err != nil {
				u = fld
			}
			add(u)
			add(fld)
		}
	}
	return res
}
