// C15 harness: histories of Add / Del / ExecuteBatch / Backup+Restore on the REAL
// rdb package over a real RocksDB directory; after every step Find and ForEach
// are called (fresh Context, as the production readers do) for every key of the
// case's alphabet and the result is recorded together with the error class of
// the operation.
package main

import (
	"encoding/json"
	"errors"
	"fmt"
	"io"
	"log"
	"os"
	"path/filepath"

	"github.com/facebookincubator/dns/dnsrocks/dnsdata/rdb"

	"verifharness/hlib"
)

type pair struct {
	K []int `json:"k"`
	V []int `json:"v"`
}

type obs struct {
	FeErr   int     `json:"fe_err"`   // error class returned by ForEach
	Vals    [][]int `json:"vals"`     // values handed to the ForEach callback, in order
	FindErr int     `json:"find_err"` // error class returned by Find (4 = io.EOF = no such key)
	FindVal []int   `json:"find_val"`
	Present int     `json:"present"` // is the key itself stored (Del of a never-stored value: ErrNXKey / ErrNXVal)? 0 no, 1 yes, 2 not observed
}

type step struct {
	Op   string `json:"op"` // add | del | batch | backup | reopen | snap | restore
	K    []int  `json:"k,omitempty"`
	V    []int  `json:"v,omitempty"`
	Adds []pair `json:"adds,omitempty"`
	Dels []pair `json:"dels,omitempty"`
	Cont bool   `json:"cont,omitempty"` // backup, restore: go on with the restored copy (else with the original)
	Err  int    `json:"err"`            // 0 nil, 1 ErrNXKey, 2 ErrNXVal, 3 ErrUnexpectedEOF, 4 EOF, 5 other
	Obs  []obs  `json:"obs"`            // one entry per key of Keys, same order
}

type c15case struct {
	Keys  [][]int `json:"keys"`
	Steps []step  `json:"steps"`
	Class string  `json:"class"`
}

func errClass(err error) int {
	switch {
	case err == nil:
		return 0
	case errors.Is(err, rdb.ErrNXKey):
		return 1
	case errors.Is(err, rdb.ErrNXVal):
		return 2
	case errors.Is(err, io.ErrUnexpectedEOF):
		return 3
	case errors.Is(err, io.EOF):
		return 4
	}
	return 5
}

func cp(b []byte) []byte { return append([]byte{}, b...) }

// observe reads every key of the alphabet the way the server does.
// sentinel is a value no generator produces.
var sentinel = []byte("\x00verif-c15-never-stored\xff")

func observe(db *rdb.RDB, keys [][]byte) []obs {
	res := make([]obs, len(keys))
	for i, k := range keys {
		o := obs{Vals: [][]int{}, FindVal: []int{}}
		err := db.ForEach(cp(k), func(v []byte) error {
			o.Vals = append(o.Vals, hlib.Ints(cp(v)))
			return nil
		}, rdb.NewContext())
		o.FeErr = errClass(err)
		v, err := db.Find(cp(k), rdb.NewContext())
		o.FindErr = errClass(err)
		if err == nil {
			o.FindVal = hlib.Ints(cp(v))
		}
		// Is the key itself stored?  Del of a value that is never stored fails with ErrNXKey
		// exactly when the key is absent and with ErrNXVal when it is there (and changes nothing).
		// (FindClosest cannot be used on a store that is being written: pooled iterators keep
		// the snapshot they were created on.)
		switch errClass(db.Del(cp(k), cp(sentinel))) {
		case 1:
			o.Present = 0
		case 2:
			o.Present = 1
		default:
			o.Present = 2
		}
		res[i] = o
	}
	return res
}

// runner holds the open store of one case.
type runner struct {
	root  string // scratch directory of this case
	dir   string // current database directory
	db    *rdb.RDB
	gen   int
	useUp bool
	bkdir string // the one backup directory the "snap" steps of the current case add backups to
}

func (r *runner) open() error {
	var err error
	if r.useUp {
		r.db, err = rdb.NewUpdater(r.dir)
	} else {
		r.db, err = rdb.NewRDB(r.dir)
	}
	return err
}

func newRunner(scratch string, n int) (*runner, error) {
	root := filepath.Join(scratch, fmt.Sprintf("c15-%d-%d", os.Getpid(), n))
	if err := os.MkdirAll(filepath.Join(root, "db0"), 0o755); err != nil {
		return nil, err
	}
	r := &runner{root: root, dir: filepath.Join(root, "db0")}
	if err := r.open(); err != nil {
		os.RemoveAll(root)
		return nil, err
	}
	return r, nil
}

func (r *runner) finish() {
	if r.db != nil {
		r.db.Close()
	}
	os.RemoveAll(r.root)
}

// exec runs one step (inputs taken from st) and fills in Err and Obs.
func (r *runner) exec(st *step, keys [][]byte) error {
	switch st.Op {
	case "add":
		st.Err = errClass(r.db.Add(cp(hlib.Unints(st.K)), cp(hlib.Unints(st.V))))
	case "del":
		st.Err = errClass(r.db.Del(cp(hlib.Unints(st.K)), cp(hlib.Unints(st.V))))
	case "batch":
		b := r.db.CreateBatch()
		// adds and dels are handed over interleaved, as ApplyDiff would
		na, nd := len(st.Adds), len(st.Dels)
		for i := 0; i < na || i < nd; i++ {
			if i < na {
				b.Add(cp(hlib.Unints(st.Adds[i].K)), cp(hlib.Unints(st.Adds[i].V)))
			}
			if i < nd {
				b.Del(cp(hlib.Unints(st.Dels[i].K)), cp(hlib.Unints(st.Dels[i].V)))
			}
		}
		st.Err = errClass(r.db.ExecuteBatch(b))
	case "reopen":
		// a session boundary: the tool ends (Close flushes, the write-ahead log is disabled) and a
		// later run opens the same directory again, alternately the way the compiler (NewRDB) and
		// the way ApplyDiff (NewUpdater) open it
		st.Err = errClass(r.db.Close())
		r.db = nil
		r.useUp = !r.useUp
		if err := r.open(); err != nil {
			return fmt.Errorf("reopen: %w", err)
		}
	case "snap":
		// a periodically run backup tool: one more backup into the SAME backup directory
		// (rdb.Backup never purges older ones); the database directory is closed meanwhile
		if err := r.db.Close(); err != nil {
			return fmt.Errorf("close before backup: %w", err)
		}
		r.db = nil
		if r.bkdir == "" {
			r.gen++
			r.bkdir = filepath.Join(r.root, fmt.Sprintf("bkc%d", r.gen))
			if err := os.MkdirAll(r.bkdir, 0o755); err != nil {
				return err
			}
		}
		st.Err = errClass(rdb.Backup(r.dir, r.bkdir))
		if err := r.open(); err != nil {
			return fmt.Errorf("open after backup: %w", err)
		}
	case "restore":
		// rdb.Restore = the latest backup of that directory, into a fresh directory; the copy is
		// read completely; with Cont the history goes on with it, else with the original
		r.gen++
		nd := filepath.Join(r.root, fmt.Sprintf("db%d", r.gen))
		bk := r.bkdir
		if bk == "" { // no backup was taken in this case: an empty backup directory
			bk = filepath.Join(r.root, fmt.Sprintf("bkempty%d", r.gen))
			if err := os.MkdirAll(bk, 0o755); err != nil {
				return err
			}
			defer os.RemoveAll(bk)
		}
		err := rdb.Restore(nd, bk)
		st.Err = errClass(err)
		if err != nil || r.bkdir == "" {
			if err == nil {
				st.Err = 0 // would be a finding: restored something from an empty backup directory
			}
			os.RemoveAll(nd)
			break // nothing restored: the current store is read
		}
		copyDB, err := rdb.NewRDB(nd)
		if err != nil {
			return fmt.Errorf("open restored copy: %w", err)
		}
		st.Obs = observe(copyDB, keys)
		if st.Cont {
			r.db.Close()
			os.RemoveAll(r.dir)
			r.db, r.dir, r.useUp = copyDB, nd, false
		} else {
			copyDB.Close()
			os.RemoveAll(nd)
		}
		return nil
	case "backup":
		// dnsrocks-backuprdb works on a database directory that no writer has open
		if err := r.db.Close(); err != nil {
			return fmt.Errorf("close before backup: %w", err)
		}
		r.db = nil
		r.gen++
		bk := filepath.Join(r.root, fmt.Sprintf("bk%d", r.gen))
		nd := filepath.Join(r.root, fmt.Sprintf("db%d", r.gen))
		if err := os.MkdirAll(bk, 0o755); err != nil {
			return err
		}
		err := rdb.Backup(r.dir, bk)
		if err == nil {
			err = rdb.Restore(nd, bk)
		}
		st.Err = errClass(err)
		if err != nil {
			// nothing to read from; go on with the original
			os.RemoveAll(bk)
			if e := r.open(); e != nil {
				return e
			}
			st.Obs = observe(r.db, keys)
			return nil
		}
		os.RemoveAll(bk)
		orig := r.dir
		r.dir = nd
		r.useUp = !r.useUp
		if err := r.open(); err != nil {
			return fmt.Errorf("open restored copy: %w", err)
		}
		st.Obs = observe(r.db, keys) // always what the RESTORED copy holds
		if st.Cont {
			os.RemoveAll(orig)
		} else {
			r.db.Close()
			r.db = nil
			os.RemoveAll(nd)
			r.dir = orig
			if err := r.open(); err != nil {
				return fmt.Errorf("reopen original: %w", err)
			}
		}
		return nil
	default:
		return fmt.Errorf("unknown op %q", st.Op)
	}
	st.Obs = observe(r.db, keys)
	return nil
}

// ---------------------------------------------------------------- generation

var smallKeys = [][]byte{[]byte("a"), []byte("b"), []byte("ab"), []byte("abc"), {0}, {0, 0}, {0xff}, []byte("a\x00")}

// values: empty, prefixes of each other, values that look like the framing itself
var smallVals = [][]byte{
	{}, []byte("a"), []byte("ab"), []byte("abc"), []byte("b"), {0}, {0, 0, 0, 0}, {1, 0, 0, 0, 'a'},
	{0, 0, 0, 0, 0, 0, 0, 0}, {1, 0, 0, 0}, []byte("abcd"), {0xff, 0xff, 0xff, 0xff}, {2, 0, 0, 0, 'a', 'b', 0, 0, 0, 0},
}

type gen struct {
	hasSnap bool   // a "snap" step was issued in this case
	pending []step // steps of a scripted sequence still to be issued (drain a key, then a boundary)
	r     *hlib.Rng
	keys  [][]byte
	vals  [][]byte
	state map[string][][]byte // what the last observation showed (only used to aim deletions)
}

func (g *gen) key() []byte { return g.keys[g.r.Intn(len(g.keys))] }
func (g *gen) val() []byte { return g.vals[g.r.Intn(len(g.vals))] }

// existing picks a (key, value) that is stored, if there is one.
func (g *gen) existing() ([]byte, []byte, bool) {
	var ks [][]byte
	for _, k := range g.keys {
		if len(g.state[string(k)]) > 0 {
			ks = append(ks, k)
		}
	}
	if len(ks) == 0 {
		return nil, nil, false
	}
	k := ks[g.r.Intn(len(ks))]
	vs := g.state[string(k)]
	return k, vs[g.r.Intn(len(vs))], true
}

// drain schedules the deletion of every value of one stored key, one Del at a time
// (each but the last rewrites the key, the last removes it), then a session boundary;
// mostly after an earlier boundary and one more write of that key.
// Returns false when nothing is stored.
func (g *gen) drain() bool {
	k, _, ok := g.existing()
	if !ok {
		return false
	}
	vs := append([][]byte{}, g.state[string(k)]...)
	if g.r.Chance(2, 3) {
		// first let the present list reach the disk, then write the key once more in the new
		// session: the key now has an older version in a table file and newer ones in memory
		nv := g.val()
		g.pending = append(g.pending, g.boundary(), step{Op: "add", K: hlib.Ints(k), V: hlib.Ints(nv)})
		vs = append(vs, nv)
	}
	g.r.Shuffle(len(vs), func(i, j int) { vs[i], vs[j] = vs[j], vs[i] })
	for _, v := range vs {
		g.pending = append(g.pending, step{Op: "del", K: hlib.Ints(k), V: hlib.Ints(v)})
	}
	g.pending = append(g.pending, g.boundary())
	// afterwards the key must be gone: deleting from it fails, adding starts a new list
	if g.r.Chance(1, 2) {
		g.pending = append(g.pending, step{Op: "del", K: hlib.Ints(k), V: hlib.Ints(vs[0])})
	}
	if g.r.Chance(1, 2) {
		g.pending = append(g.pending, step{Op: "add", K: hlib.Ints(k), V: hlib.Ints(g.val())})
	}
	return true
}

func (g *gen) boundary() step {
	if g.r.Chance(1, 4) {
		return step{Op: "backup", Cont: g.r.Chance(1, 2)}
	}
	return step{Op: "reopen"}
}

// periodic schedules what a periodically run backup tool sees: a backup, changes, another
// backup into the same directory, perhaps more changes, then (now or later) a restore.
func (g *gen) periodic() {
	r := g.r
	change := func() {
		n := 1 + r.Intn(2)
		for i := 0; i < n; i++ {
			g.pending = append(g.pending, step{Op: "add", K: hlib.Ints(g.key()), V: hlib.Ints(g.val())})
		}
		if k, v, ok := g.existing(); ok && r.Chance(1, 2) {
			g.pending = append(g.pending, step{Op: "del", K: hlib.Ints(k), V: hlib.Ints(v)})
		}
	}
	nb := 2 + r.Intn(2)
	for i := 0; i < nb; i++ {
		g.pending = append(g.pending, step{Op: "snap"})
		if i < nb-1 || r.Chance(1, 2) {
			change()
		}
	}
	if r.Chance(1, 4) {
		g.pending = append(g.pending, step{Op: "reopen"})
	}
	if r.Chance(3, 4) {
		g.pending = append(g.pending, step{Op: "restore", Cont: r.Chance(1, 2)})
	}
}

func (g *gen) genStep(class string) step {
	st := g.genStep1(class)
	if st.Op == "snap" {
		g.hasSnap = true
	}
	return st
}

func (g *gen) genStep1(class string) step {
	r := g.r
	bigBatch := class == "bigbatch"
	if len(g.pending) > 0 {
		st := g.pending[0]
		g.pending = g.pending[1:]
		return st
	}
	w := []int{12, 10, 10, 1, 1, 1, 1, 1, 1}
	if class == "sessions" {
		w = []int{10, 6, 4, 1, 3, 4, 1, 2, 2}
	}
	switch r.Pick(w) {
	case 4:
		return step{Op: "reopen"}
	case 5:
		if g.drain() {
			return g.genStep1(class)
		}
		return step{Op: "add", K: hlib.Ints(g.key()), V: hlib.Ints(g.val())}
	case 6:
		return step{Op: "snap"}
	case 7:
		if g.hasSnap || r.Chance(1, 8) { // rarely: restore with no backup at all must fail
			return step{Op: "restore", Cont: r.Chance(1, 2)}
		}
		return step{Op: "snap"}
	case 8:
		g.periodic()
		return g.genStep1(class)
	}
	switch r.Pick([]int{w[0], w[1], w[2], w[3]}) {
	case 0:
		return step{Op: "add", K: hlib.Ints(g.key()), V: hlib.Ints(g.val())}
	case 1:
		if r.Chance(7, 10) {
			if k, v, ok := g.existing(); ok {
				return step{Op: "del", K: hlib.Ints(k), V: hlib.Ints(v)}
			}
		}
		return step{Op: "del", K: hlib.Ints(g.key()), V: hlib.Ints(g.val())}
	case 2:
		st := step{Op: "batch"}
		na := r.Intn(6)
		if bigBatch {
			na = 13 + r.Intn(28) // more than 12 pairs: sort.Slice leaves insertion sort, order of equal keys is no longer kept
		}
		for i := 0; i < na; i++ {
			st.Adds = append(st.Adds, pair{hlib.Ints(g.key()), hlib.Ints(g.val())})
		}
		nd := r.Intn(5)
		if bigBatch && r.Chance(1, 2) {
			nd = 13 + r.Intn(10)
		}
		failing := r.Chance(1, 4)
		for i := 0; i < nd; i++ {
			switch {
			case failing && r.Chance(1, 2):
				st.Dels = append(st.Dels, pair{hlib.Ints(g.key()), hlib.Ints(g.val())}) // probably absent
			case len(st.Adds) > 0 && r.Chance(1, 3):
				p := st.Adds[r.Intn(len(st.Adds))] // delete what the same batch adds
				st.Dels = append(st.Dels, p)
			default:
				if k, v, ok := g.existing(); ok {
					st.Dels = append(st.Dels, pair{hlib.Ints(k), hlib.Ints(v)})
				} else if len(st.Adds) > 0 {
					st.Dels = append(st.Dels, st.Adds[r.Intn(len(st.Adds))])
				}
			}
		}
		return st
	default:
		return step{Op: "backup", Cont: r.Chance(1, 2)}
	}
}

// newGen chooses the alphabets and the length of one case.
func newGen(r *hlib.Rng, tier string) (*gen, string, int) {
	g := &gen{r: r, state: map[string][][]byte{}}
	class := "small"
	nsteps := 4 + r.Intn(13)
	switch r.Pick([]int{10, 3, 2, 1, 5}) {
	case 0: // small alphabets
		nk := 1 + r.Intn(4)
		perm := make([]int, len(smallKeys))
		for i := range perm {
			perm[i] = i
		}
		r.Shuffle(len(perm), func(i, j int) { perm[i], perm[j] = perm[j], perm[i] })
		for i := 0; i < nk; i++ {
			g.keys = append(g.keys, smallKeys[perm[i]])
		}
		nv := 2 + r.Intn(5)
		for i := 0; i < nv; i++ {
			g.vals = append(g.vals, smallVals[r.Intn(len(smallVals))])
		}
	case 1: // large batches over very few keys, many distinct values
		class = "bigbatch"
		g.keys = [][]byte{[]byte("a"), []byte("ab"), []byte("b")}[:2+r.Intn(2)]
		for i := 0; i < 12; i++ {
			g.vals = append(g.vals, []byte{byte('A' + i)})
		}
		g.vals = append(g.vals, []byte{}, []byte("AB"))
		nsteps = 2 + r.Intn(5)
	case 2: // random long keys and values
		class = "long"
		nk := 1 + r.Intn(3)
		for i := 0; i < nk; i++ {
			g.keys = append(g.keys, r.Bytes(1+r.Intn(300), nil))
		}
		for i := 0; i < 3; i++ {
			n := r.Intn(40)
			if r.Chance(1, 2) {
				n = 250 + r.Intn(400) // second length byte in use
			}
			g.vals = append(g.vals, r.Bytes(n, nil))
		}
		if tier == "thorough" && r.Chance(1, 8) {
			g.vals = append(g.vals, r.Bytes(65536+r.Intn(3000), nil)) // third length byte
		}
		nsteps = 2 + r.Intn(6)
	case 4: // several sessions over few keys: written, closed, changed and emptied, closed, read
		class = "sessions"
		nk := 1 + r.Intn(3)
		for i := 0; i < nk; i++ {
			g.keys = append(g.keys, smallKeys[i*3+r.Intn(2)])
		}
		nv := 2 + r.Intn(3)
		for i := 0; i < nv; i++ {
			g.vals = append(g.vals, smallVals[r.Intn(len(smallVals))])
		}
		nsteps = 10 + r.Intn(13)
	default: // the empty key beside others
		class = "emptykey"
		g.keys = [][]byte{{}, []byte("a"), {0}}
		g.vals = [][]byte{{}, []byte("a"), {0, 0, 0, 0}}
	}
	return g, class, nsteps
}

// ---------------------------------------------------------------- running

func bytesKeys(c *c15case) [][]byte {
	keys := make([][]byte, len(c.Keys))
	for i, k := range c.Keys {
		keys[i] = hlib.Unints(k)
	}
	return keys
}

// replayCase executes the steps of c (inputs only) and fills in fresh observations.
func replayCase(a *hlib.Args, n int, c *c15case) error {
	keys := bytesKeys(c)
	r, err := newRunner(a.Scratch, n)
	if err != nil {
		return err
	}
	defer r.finish()
	for i := range c.Steps {
		st := &c.Steps[i]
		st.Err, st.Obs = 0, nil
		if err := r.exec(st, keys); err != nil {
			return fmt.Errorf("case %d step %d (%s): %w", n, i, st.Op, err)
		}
	}
	return nil
}

// genCase generates and runs one history; every step is generated after the
// previous one was observed so that deletions can aim at what is stored.
// shared is the store that most generated cases of one run use one after the
// other (opening and closing a RocksDB directory costs far more than the steps).
// Such a case lives in its own key space: every key of its alphabet carries a
// two-byte prefix that no other case uses.  Every sixth case and every case that
// uses the empty key get a fresh store and literal keys.  A replayed case always
// runs alone in a fresh store, with exactly the keys it was recorded with.
var shared *runner

func genCase(a *hlib.Args, n int, r *hlib.Rng) (c15case, error) {
	g, class, nsteps := newGen(r, a.Tier)
	c := c15case{Class: class, Keys: [][]int{}, Steps: []step{}}
	own := class == "emptykey" || n%6 == 0
	var rn *runner
	var err error
	if own {
		if rn, err = newRunner(a.Scratch, n); err != nil {
			return c, err
		}
		defer rn.finish()
	} else {
		if shared == nil {
			if shared, err = newRunner(a.Scratch, 1000000+n); err != nil {
				return c, err
			}
		}
		rn = shared
		if rn.bkdir != "" { // every case has a backup directory of its own
			os.RemoveAll(rn.bkdir)
			rn.bkdir = ""
		}
		for i, k := range g.keys {
			g.keys[i] = append([]byte{byte(n >> 8), byte(n)}, k...)
		}
		c.Class += ":shared"
	}
	for _, k := range g.keys {
		c.Keys = append(c.Keys, hlib.Ints(k))
	}
	for i := 0; i < nsteps; i++ {
		st := g.genStep(class)
		if err := rn.exec(&st, g.keys); err != nil {
			return c, fmt.Errorf("case %d step %d (%s): %w", n, i, st.Op, err)
		}
		for j, k := range g.keys {
			var vs [][]byte
			for _, v := range st.Obs[j].Vals {
				vs = append(vs, hlib.Unints(v))
			}
			g.state[string(k)] = vs
		}
		c.Steps = append(c.Steps, st)
	}
	return c, nil
}

func run(a *hlib.Args, e *hlib.Emitter) error {
	log.SetOutput(io.Discard) // delValue logs every failed deletion
	if a.Scratch == "" {
		d, err := os.MkdirTemp("/var/tmp", "c15-")
		if err != nil {
			return err
		}
		defer os.RemoveAll(d)
		a.Scratch = d
	}
	if a.Replay != "" {
		cs, err := hlib.ReadReplay(a.Replay)
		if err != nil {
			return err
		}
		for n, m := range cs {
			var c c15case
			json.Unmarshal(m["keys"], &c.Keys)
			json.Unmarshal(m["steps"], &c.Steps)
			json.Unmarshal(m["class"], &c.Class)
			if c.Keys == nil {
				c.Keys = [][]int{}
			}
			if c.Steps == nil {
				c.Steps = []step{}
			}
			if err := replayCase(a, n, &c); err != nil {
				return err
			}
			e.Emit(c)
		}
		return nil
	}
	r := hlib.NewRng(a.Seed, 15)
	defer func() {
		if shared != nil {
			shared.finish()
			shared = nil
		}
	}()
	for n := 0; n < a.N; n++ {
		c, err := genCase(a, n, r)
		if err != nil {
			return err
		}
		e.Emit(c)
	}
	return nil
}

func main() { hlib.Main(run) }
