// C01 harness: generated data files compiled by the real compilers into CDB,
// RocksDB (v1 keys) and RocksDB (v2 keys); dumps of the three databases; the
// declared records; queries through the three real handlers.
package main

import (
	"io"
	"log"
	"os"

	"verifharness/corelib"
	"verifharness/hlib"
)

var classes = []string{"basic", "located", "nested", "prefix", "long", "root", "rootdeleg", "empty", "odd", "c02", "located", "nested"}

func run(a *hlib.Args, e *hlib.Emitter) error {
	os.Setenv("TMPDIR", a.Scratch)
	log.SetOutput(io.Discard)
	if a.Replay != "" {
		cs, err := corelib.ReadCases(a.Replay)
		if err != nil {
			return err
		}
		if err := corelib.BuildAll(cs, a.Scratch, 8); err != nil {
			return err
		}
		for _, c := range cs {
			e.Emit(c)
		}
		return nil
	}
	var cs []*corelib.FileCase
	for i := 0; i < a.N; i++ {
		r := hlib.NewRng(a.Seed, uint64(100+i))
		class := classes[i%len(classes)]
		g := corelib.Generate(r, class, 1700000000+int64(r.Intn(1000000)))
		c := &corelib.FileCase{Class: class, Mtime: g.Mtime, Lines: g.Lines}
		if c.Lines == nil {
			c.Lines = []corelib.Line{}
		}
		nq := 30
		if a.Tier == "thorough" {
			nq = 40
		}
		c.Queries = corelib.GenQueries(g, nq)
		cs = append(cs, c)
	}
	if err := corelib.BuildAll(cs, a.Scratch, 8); err != nil {
		return err
	}
	for _, c := range cs {
		e.Emit(c)
	}
	return nil
}

func main() { hlib.Main(run) }
