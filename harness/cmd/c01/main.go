// C01 harness: generated data files compiled by the real compilers into CDB,
// RocksDB (v1 keys) and RocksDB (v2 keys); dumps of the three databases; the
// declared records; queries through the three real handlers.
package main

import (
	"verifharness/corelib"
	"verifharness/hlib"
)

var classes = []string{"basic", "located", "nested", "prefix", "long", "root", "rootdeleg", "empty", "odd", "c02", "mixedrd", "hibyte"}

func main() {
	hlib.Main(func(a *hlib.Args, e *hlib.Emitter) error { return corelib.RunFiles(a, e, classes, 100) })
}
