package main

import (
	"encoding/json"
	"fmt"
	"os"

	"verifharness/corelib"
	"verifharness/hlib"
)

func emit(path string, c *corelib.FileCase, scratch string) {
	if err := c.Build(scratch, 0); err != nil {
		fmt.Println(err)
	}
	b, _ := json.Marshal(c)
	os.WriteFile(path, append(b, '\n'), 0644)
	fmt.Println(path, c.CompileErr)
}

func qs(specs ...corelib.QSpec) []corelib.Query {
	var r []corelib.Query
	for i, q := range specs {
		q.ID = i + 1
		q.Class = 1
		w, err := corelib.PackQuery(q)
		if err != nil {
			panic(err)
		}
		r = append(r, corelib.Query{Wire: w, Client: []string{"10.0.0.1", "10.1.0.1", "192.168.0.1"}[i%3], Max: 1, Class_: "corpus"})
	}
	return r
}

func main() {
	a := &hlib.Args{Scratch: os.Args[1]}
	corelib.Setup(a)
	out := os.Args[2]
	z := corelib.N("example", "com")
	// 1. glue for an NS / MX target written with upper-case letters
	g := &corelib.Gen{R: hlib.NewRng(1, 1), Mtime: 1700000000, Types: map[int]bool{}}
	g.SOA(z, nil)
	g.NS(z, z.Child("ns1"), "", "192.0.2.1", nil)
	d := z.Child("deleg")
	g.NS(d, d.Child("NS"), "", "192.0.2.9", nil)
	g.MX(z.Child("www"), corelib.N("Mail", "example", "com"), "", "192.0.2.7", nil)
	emit(out+"/upper-target.jsonl", &corelib.FileCase{Class: "mixedrd", Mtime: g.Mtime, Lines: g.Lines,
		Queries: qs(corelib.QSpec{Name: d.Child("www"), Type: 1}, corelib.QSpec{Name: z.Child("www"), Type: 15}, corelib.QSpec{Name: d, Type: 2})}, a.Scratch)
	// 2. owner names with bytes above 0x7f
	g = &corelib.Gen{R: hlib.NewRng(1, 2), Mtime: 1700000000, Types: map[int]bool{}}
	g.SOA(z, nil)
	g.NS(z, z.Child("ns1"), "", "192.0.2.1", nil)
	g.Addr(z.Child("x\x80"), false, "192.0.2.5", nil, 1)
	g.Addr(z.Child("\xc3\x89"), false, "192.0.2.6", nil, 1)
	g.TXT(z.Child("\xc3\xa9"), false, []byte("lower"), nil)
	emit(out+"/hibyte-owner.jsonl", &corelib.FileCase{Class: "hibyte", Mtime: g.Mtime, Lines: g.Lines,
		Queries: qs(corelib.QSpec{Name: z.Child("x\x80"), Type: 1}, corelib.QSpec{Name: z.Child("\xc3\x89"), Type: 1},
			corelib.QSpec{Name: z.Child("\xc3\xa9"), Type: 255}, corelib.QSpec{Name: z.Child("X\x80"), Type: 1})}, a.Scratch)
	// 3. NS targets with bytes above 0x7f (the additional-section lookup must not break the packed name)
	g = &corelib.Gen{R: hlib.NewRng(1, 3), Mtime: 1700000000, Types: map[int]bool{}}
	g.SOA(z, nil)
	g.NS(z, z.Child("ns1"), "", "192.0.2.1", nil)
	g.NS(d, d.Child("ns\x80"), "", "192.0.2.9", nil)
	g.NS(z.Child("d2"), corelib.N("\xff\xfe\xfd\xfc\xfb\xfa", "x"), "", "", nil)
	g.NS(z.Child("d3"), z.Child("d3").Child("N\xc3\x89"), "", "2001:db8::3", nil)
	emit(out+"/hibyte-target.jsonl", &corelib.FileCase{Class: "hibyte", Mtime: g.Mtime, Lines: g.Lines,
		Queries: qs(corelib.QSpec{Name: d.Child("www"), Type: 1}, corelib.QSpec{Name: z.Child("d2"), Type: 1},
			corelib.QSpec{Name: z.Child("d3").Child("a"), Type: 28}, corelib.QSpec{Name: d, Type: 43})}, a.Scratch)
}
