package rl

import (
	"context"
	"fmt"
	"time"

	"github.com/coredns/coredns/plugin/pkg/dnstest"

	"github.com/facebookincubator/dns/dnsrocks/dnsserver"
	"github.com/facebookincubator/dns/dnsrocks/dnsserver/test"
)

// HistObs is what one event of a sequential history produced on one handler.
type HistObs struct {
	Now  int64  `json:"now"`  // time.Now().Unix() just before the event
	Resp Resp   `json:"resp"` // query events
	Rel  string `json:"rel"`  // reload events: ok / nokey / timeout / err
	Exp  int    `json:"exp"`  // 1 = DNS_cache.expired counted during this event
}

// RunHist feeds the events (threads, in order, no interleaving) to one handler.
// Query events that have Sleep > 0 first wait that many milliseconds (expiry).
func RunHist(pool *Pool, dir string, c *Case, cache bool) ([]HistObs, string) {
	w := &World{Dir: dir, Backend: c.Cfg.Backend, Pool: pool}
	defer w.Cleanup()
	updated := map[int]bool{}
	for _, t := range c.Threads {
		if t.Kind == "e" {
			updated[t.Path] = true
		}
	}
	disk := map[int]File{}
	for _, e := range c.Disk {
		var err error
		if w.Backend == "cdb" && pool != nil && e.File.OK && !updated[e.Path] {
			err = w.Alias(e.Path, e.File)
		} else {
			err = w.Create(e.Path, e.File)
		}
		if err != nil {
			return nil, "create: " + err.Error()
		}
		disk[e.Path] = e.File
	}
	cfg := c.Cfg
	cfg.Cache = cache
	if cfg.Cache && cfg.LRU == 0 {
		cfg.LRU = 64
	}
	st := NewSafeStats()
	h, err := NewHandler(w, cfg, c.P0, st)
	if err != nil {
		return nil, "handler: " + err.Error()
	}
	defer h.Close()
	InstallHook() // threads without a scheduler context are never parked
	obs := make([]HistObs, len(c.Threads))
	for i, t := range c.Threads {
		if t.Sleep > 0 {
			time.Sleep(time.Duration(t.Sleep) * time.Millisecond)
			// stay clear of a second boundary so that the handler reads the same Unix time
			for f := time.Now().Nanosecond(); f > 700e6; f = time.Now().Nanosecond() {
				time.Sleep(50 * time.Millisecond)
			}
		}
		obs[i].Now = time.Now().Unix()
		switch t.Kind {
		case "q":
			hit0, exp0 := st.Get("DNS_cache.hit"), st.Get("DNS_cache.expired")
			req := BuildRequest(t, uint16(2000+i))
			rec := dnstest.NewRecorder(&test.ResponseWriterCustomRemote{RemoteIP: t.IP})
			var rcode int
			var err error
			func() {
				defer func() {
					if e := recover(); e != nil {
						err = fmt.Errorf("panic: %v", e)
					}
				}()
				rcode, err = h.ServeDNSWithRCODE(dnsserver.WithMaxAnswer(context.Background(), 1), rec, req)
			}()
			obs[i].Resp = Observe(rec.Msg, rcode, err)
			if st.Get("DNS_cache.hit") > hit0 {
				obs[i].Resp.Hit = 1
			}
			if st.Get("DNS_cache.expired") > exp0 {
				obs[i].Exp = 1
			}
		case "r":
			var sig *dnsserver.ReloadSignal
			if t.Full {
				sig = dnsserver.NewFullReloadSignal(w.Path(t.Path))
			} else {
				sig = dnsserver.NewPartialReloadSignal()
			}
			obs[i].Rel = ReloadErrKind(h.Reload(*sig))
		case "e":
			if err := w.Update(t.Path, disk[t.Path], t.File); err != nil {
				return obs, "env step failed: " + err.Error()
			}
			disk[t.Path] = t.File
		}
	}
	return obs, ""
}
