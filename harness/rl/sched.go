package rl

import (
	"bytes"
	"context"
	"errors"
	"fmt"
	"runtime"
	"strconv"
	"strings"
	"sync"
	"time"

	"github.com/coredns/coredns/plugin/pkg/dnstest"
	"github.com/miekg/dns"

	"github.com/facebookincubator/dns/dnsrocks/db"
	"github.com/facebookincubator/dns/dnsrocks/dnsserver"
	"github.com/facebookincubator/dns/dnsrocks/dnsserver/test"
)

// ThreadSpec describes one thread of a case: a query ("q"), a reload ("r") or
// an environment step ("e": the content of a database path changes on disk).
type ThreadSpec struct {
	Kind string `json:"kind"`
	// query
	Client int    `json:"client,omitempty"`
	Name   string `json:"name,omitempty"` // as asked (letter case preserved)
	Qtype  int    `json:"qtype,omitempty"`
	Qclass int    `json:"qclass,omitempty"`
	IP     string `json:"ip,omitempty"`
	Edns   bool   `json:"edns,omitempty"`
	ECS    string `json:"ecs,omitempty"`  // CIDR or ""
	EVer   int    `json:"ever,omitempty"` // EDNS version (0 = the supported one)
	RD     bool   `json:"rd,omitempty"`
	Sleep  int    `json:"sleep,omitempty"` // history events: milliseconds to wait before the event
	// reload
	Full bool `json:"full,omitempty"`
	Path int  `json:"path,omitempty"` // reload: target of a full reload; env: path updated
	// env
	File File `json:"file,omitempty"`
}

// Config is the handler configuration of a case.
type Config struct {
	Backend    string `json:"backend"`
	Cache      bool   `json:"cache"`
	LRU        int    `json:"lru"`
	WRSTimeout int    `json:"wrs_timeout"`
	VKey       bool   `json:"vkey"`     // validation key configured
	Timeout0   bool   `json:"timeout0"` // ReloadTimeout = 0: every reload times out
}

// Step is one entry of the effective schedule: thread T was released and arrived
// at yield point P (or finished: "done"), or did not arrive in time (B: blocked).
type Step struct {
	T int    `json:"t"`
	B bool   `json:"b"`
	P string `json:"p"`
}

// RR is one resource record of a response: owner name as written and the rest.
type RR struct {
	Owner string `json:"owner"`
	Rest  string `json:"rest"`
}

// Resp is what was observed for one query thread.
type Resp struct {
	Done   bool   `json:"done"`
	NoMsg  bool   `json:"nomsg"` // the handler wrote nothing
	Rcode  int    `json:"rcode"`
	Flags  int    `json:"flags"` // aa=1 tc=2 rd=4 ra=8 ad=16 cd=32 qr=64
	Ans    []int  `json:"ans"`   // generation stamps in the answer section
	Extra  []int  `json:"extra"` // generation stamps in authority and additional
	Hit    int    `json:"hit"`   // 1 = cache hit counted while this thread ran, 0 = not
	Secs   [][]RR `json:"secs"`  // question, answer, authority, additional (without OPT)
	Opt    string `json:"opt"`   // the OPT record of the response ("" if none)
	SrvErr string `json:"srverr,omitempty"`
}

// SafeStats is a concurrency-safe counter map implementing stats.Stats.
type SafeStats struct {
	mu sync.Mutex
	m  map[string]int64
}

func NewSafeStats() *SafeStats { return &SafeStats{m: map[string]int64{}} }
func (s *SafeStats) ResetCounterTo(key string, value int64) {
	s.mu.Lock()
	s.m[key] = value
	s.mu.Unlock()
}
func (s *SafeStats) ResetCounter(key string) { s.ResetCounterTo(key, 0) }
func (s *SafeStats) IncrementCounterBy(key string, value int64) {
	s.mu.Lock()
	s.m[key] += value
	s.mu.Unlock()
}
func (s *SafeStats) IncrementCounter(key string)       { s.IncrementCounterBy(key, 1) }
func (s *SafeStats) AddSample(key string, value int64) {}
func (s *SafeStats) Get(key string) int64 {
	s.mu.Lock()
	defer s.mu.Unlock()
	return s.m[key]
}

// NewHandler creates the real handler on path p of the world and loads it.
func NewHandler(w *World, c Config, p int, st *SafeStats) (*dnsserver.FBDNSDB, error) {
	dbc := dnsserver.DBConfig{Path: w.Path(p), Driver: w.Driver(), ReloadTimeout: 30 * time.Second}
	if c.Timeout0 {
		dbc.ReloadTimeout = 0
	}
	if c.VKey {
		dbc.ValidationKey = w.ValidationKey()
	}
	h, err := dnsserver.NewFBDNSDBBasic(dnsserver.HandlerConfig{}, dbc,
		dnsserver.CacheConfig{Enabled: c.Cache, LRUSize: c.LRU, WRSTimeout: int64(c.WRSTimeout)},
		&dnsserver.DummyLogger{}, st)
	if err != nil {
		return nil, err
	}
	if err := h.Load(); err != nil {
		return nil, err
	}
	return h, nil
}

// BuildRequest makes the query message of a query thread.
func BuildRequest(t ThreadSpec, id uint16) *dns.Msg {
	req := new(dns.Msg)
	req.Id = id
	req.RecursionDesired = t.RD
	qc := uint16(t.Qclass)
	if qc == 0 {
		qc = dns.ClassINET
	}
	req.Question = []dns.Question{{Name: t.Name, Qtype: uint16(t.Qtype), Qclass: qc}}
	if t.Edns {
		o := new(dns.OPT)
		o.Hdr.Name = "."
		o.Hdr.Rrtype = dns.TypeOPT
		o.SetUDPSize(4096)
		o.SetVersion(uint8(t.EVer))
		if t.ECS != "" {
			if e, err := dnsserver.MakeOPTWithECS(t.ECS); err == nil {
				o.Option = append(o.Option, e.Option...)
			}
		}
		req.Extra = append(req.Extra, o)
	}
	return req
}

func stampOf(rr dns.RR) (int, bool) {
	switch v := rr.(type) {
	case *dns.A:
		ip := v.A.To4()
		if ip != nil && ip[0] == 10 && ip[3] != 4 {
			return int(ip[2]), true
		}
	case *dns.MX:
		return int(v.Preference), true
	case *dns.SOA:
		return int(v.Serial), true
	case *dns.TXT:
		if len(v.Txt) > 0 && strings.HasPrefix(v.Txt[0], "g-") {
			n, err := strconv.Atoi(v.Txt[0][2:])
			if err == nil {
				return n, true
			}
		}
	}
	return 0, false
}

func rrObs(rr dns.RR) RR {
	h := rr.Header()
	full := rr.String()
	rest := strings.TrimPrefix(full, h.String())
	return RR{Owner: h.Name, Rest: fmt.Sprintf("%d %d %d %s", h.Class, h.Rrtype, h.Ttl, rest)}
}

// Observe extracts the observation from the message written by the handler.
func Observe(m *dns.Msg, rcode int, err error) Resp {
	r := Resp{Done: true, Ans: []int{}, Extra: []int{}, Rcode: rcode}
	if err != nil {
		r.SrvErr = err.Error()
	}
	if m == nil {
		r.NoMsg = true
		return r
	}
	r.Rcode = m.Rcode
	fl := 0
	for i, b := range []bool{m.Authoritative, m.Truncated, m.RecursionDesired, m.RecursionAvailable, m.AuthenticatedData, m.CheckingDisabled, m.Response} {
		if b {
			fl |= 1 << uint(i)
		}
	}
	r.Flags = fl
	q := []RR{}
	for _, x := range m.Question {
		q = append(q, RR{Owner: x.Name, Rest: fmt.Sprintf("%d %d", x.Qclass, x.Qtype)})
	}
	r.Secs = [][]RR{q, {}, {}, {}}
	for i, sec := range [][]dns.RR{m.Answer, m.Ns, m.Extra} {
		for _, rr := range sec {
			if _, isOpt := rr.(*dns.OPT); isOpt {
				r.Opt += rr.String()
				continue
			}
			r.Secs[i+1] = append(r.Secs[i+1], rrObs(rr))
			if s, ok := stampOf(rr); ok {
				if i == 0 {
					r.Ans = append(r.Ans, s)
				} else {
					r.Extra = append(r.Extra, s)
				}
			}
		}
	}
	return r
}

// ---------------------------------------------------------------- scheduler

type tidKey struct{}

type tidVal struct {
	r   *Runner
	tid int
}

var (
	hookOnce sync.Once
	goids    sync.Map // goroutine id -> tidVal (reload threads: their yield points get no context)
)

func globalHook(ctx context.Context, point string) {
	v, ok := ctx.Value(tidKey{}).(tidVal)
	if !ok {
		g, ok2 := goids.Load(goid())
		if !ok2 {
			return // not a scheduled thread (stress mode, validation reads inside Reload): do not park
		}
		v = g.(tidVal)
	}
	v.r.arrive <- arrival{v.tid, point}
	<-v.r.threads[v.tid].resume
}

// InstallHook installs the process-wide yield hook (idempotent).
func InstallHook() {
	hookOnce.Do(func() { dnsserver.SetVerifYieldHook(globalHook) })
}

type arrival struct {
	tid   int
	point string
}

type thr struct {
	spec    ThreadSpec
	resume  chan struct{}
	started bool // released at least once
	pending bool // released, not yet arrived
	done    bool
	point   string // last yield point reached
}

// Runner replays a schedule against one handler.
type Runner struct {
	W         *World
	H         *dnsserver.FBDNSDB
	Stats     *SafeStats
	Disk      map[int]File
	threads   []*thr
	arrive    chan arrival
	holder    int // reload thread currently between reload_locked and return, or -1
	Steps     []Step
	Resps     []Resp   // per thread (queries)
	RelErr    []string // per thread (reloads): "" not finished, "ok", "nokey", "timeout", "err:..."
	EnvErr    []string
	BlockWait time.Duration
	StepWait  time.Duration
	Err       string
	deferred  []arrival // arrivals of threads that got the lock while its holder had not yet reported its return
}

func goid() int64 {
	var buf [64]byte
	n := runtime.Stack(buf[:], false)
	f := bytes.Fields(buf[:n])
	if len(f) < 2 {
		return -1
	}
	id, _ := strconv.ParseInt(string(f[1]), 10, 64)
	return id
}

// NewRunner prepares the goroutines of all threads (parked before their first step).
func NewRunner(w *World, h *dnsserver.FBDNSDB, st *SafeStats, disk map[int]File, specs []ThreadSpec) *Runner {
	r := &Runner{W: w, H: h, Stats: st, Disk: disk, arrive: make(chan arrival, 64), holder: -1,
		BlockWait: 40 * time.Millisecond, StepWait: 8 * time.Second}
	r.Resps = make([]Resp, len(specs))
	r.RelErr = make([]string, len(specs))
	r.EnvErr = make([]string, len(specs))
	for i, s := range specs {
		t := &thr{spec: s, resume: make(chan struct{}, 1)}
		r.threads = append(r.threads, t)
		r.Resps[i] = Resp{Ans: []int{}, Extra: []int{}}
		switch s.Kind {
		case "q":
			go r.queryThread(i, t)
		case "r":
			go r.reloadThread(i, t)
		}
	}
	InstallHook()
	return r
}

func (r *Runner) queryThread(i int, t *thr) {
	<-t.resume
	req := BuildRequest(t.spec, uint16(1000+i))
	rec := dnstest.NewRecorder(&test.ResponseWriterCustomRemote{RemoteIP: t.spec.IP})
	ctx := context.WithValue(context.Background(), tidKey{}, tidVal{r, i})
	var rcode int
	var err error
	func() {
		defer func() {
			if e := recover(); e != nil {
				err = fmt.Errorf("panic: %v", e)
			}
		}()
		rcode, err = r.H.ServeDNSWithRCODE(dnsserver.WithMaxAnswer(ctx, 1), rec, req)
	}()
	r.Resps[i] = Observe(rec.Msg, rcode, err)
	r.arrive <- arrival{i, "done"}
}

// ReloadErrKind classifies the error returned by Reload.
func ReloadErrKind(err error) string {
	switch {
	case err == nil:
		return "ok"
	case errors.Is(err, db.ErrValidationKeyNotFound):
		return "nokey"
	case errors.Is(err, db.ErrReloadTimeout):
		return "timeout"
	}
	return "err"
}

func (r *Runner) reloadThread(i int, t *thr) {
	<-t.resume
	goids.Store(goid(), tidVal{r, i})
	var sig *dnsserver.ReloadSignal
	if t.spec.Full {
		sig = dnsserver.NewFullReloadSignal(r.W.Path(t.spec.Path))
	} else {
		sig = dnsserver.NewPartialReloadSignal()
	}
	var err error
	func() {
		defer func() {
			if e := recover(); e != nil {
				err = fmt.Errorf("panic: %v", e)
			}
		}()
		err = r.H.Reload(*sig)
	}()
	r.RelErr[i] = ReloadErrKind(err)
	if r.RelErr[i] == "timeout" {
		// the reload goroutine of db.Reload may still be running: let it finish so
		// that its late effects (if any) are observed at a fixed place (and never
		// after the handler was closed)
		waitReloadGoroutines()
	}
	goids.Delete(goid())
	r.arrive <- arrival{i, "done"}
}

// waitReloadGoroutines waits until no goroutine started by db.(*DB).Reload is left
// (they have no handle; their presence is read off the goroutine dump).
func waitReloadGoroutines() {
	buf := make([]byte, 4<<20)
	for i := 0; i < 400; i++ {
		time.Sleep(25 * time.Millisecond)
		n := runtime.Stack(buf, true)
		if !bytes.Contains(buf[:n], []byte("db.(*DB).Reload.func1")) {
			return
		}
	}
}

// record notes an arrival.  A thread blocked on reloadMu can pass its first yield point
// before the returning holder (whose deferred Unlock has already run) has reported "done":
// such an arrival is kept back and recorded right after the holder's.
func (r *Runner) record(a arrival) {
	if (a.point == "acquired" || a.point == "reload_locked") && r.holder != -1 && r.holder != a.tid &&
		r.threads[r.holder].pending {
		r.deferred = append(r.deferred, a)
		return
	}
	r.record1(a)
	if a.point == "done" && len(r.deferred) > 0 {
		d := r.deferred
		r.deferred = nil
		for _, x := range d {
			r.record(x)
		}
	}
}

func (r *Runner) record1(a arrival) {
	t := r.threads[a.tid]
	t.pending = false
	t.point = a.point
	if a.point == "done" {
		t.done = true
		if r.holder == a.tid {
			r.holder = -1
		}
	}
	if a.point == "reload_locked" {
		r.holder = a.tid
	}
	r.Steps = append(r.Steps, Step{T: a.tid, P: a.point})
}

func (r *Runner) anyPending() bool {
	for _, t := range r.threads {
		if t.pending {
			return true
		}
	}
	return false
}

// StepThread performs one macro step of thread i: release it and wait until it
// arrives at its next yield point, finishes, or is found blocked.
func (r *Runner) StepThread(i int) {
	if i < 0 || i >= len(r.threads) {
		return
	}
	t := r.threads[i]
	if t.done {
		return
	}
	if t.spec.Kind == "e" {
		old := r.Disk[t.spec.Path]
		if err := r.W.Update(t.spec.Path, old, t.spec.File); err != nil {
			r.EnvErr[i] = err.Error()
			r.Err = "env step failed: " + err.Error()
		}
		r.Disk[t.spec.Path] = t.spec.File
		t.done = true
		r.Steps = append(r.Steps, Step{T: i, P: "done"})
		return
	}
	hit0 := r.Stats.Get("DNS_cache.hit")
	wait := r.StepWait
	if !t.started && r.holder != -1 {
		wait = r.BlockWait // expected to block on reloadMu
	}
	if !t.pending {
		t.started = true
		t.pending = true
		t.resume <- struct{}{}
	} else {
		wait = r.BlockWait
	}
	r.collect(i, wait)
	if r.Stats.Get("DNS_cache.hit") > hit0 && t.spec.Kind == "q" {
		r.Resps[i].Hit = 1
	}
	// threads found blocked earlier proceed by themselves once the lock is free
	for r.holder == -1 && r.anyPending() {
		if !r.collect(-1, r.StepWait) {
			break
		}
	}
}

func (r *Runner) stuck() string {
	var l []string
	for i, t := range r.threads {
		if !t.done {
			l = append(l, fmt.Sprintf("thread %d after %q", i, t.point))
		}
	}
	return "threads never finished: " + strings.Join(l, ", ")
}

// collect waits for arrivals until thread want has arrived (want = -1: any one
// arrival).  Returns false on timeout; a timeout for want marks it blocked.
func (r *Runner) collect(want int, wait time.Duration) bool {
	timer := time.NewTimer(wait)
	defer timer.Stop()
	for {
		select {
		case a := <-r.arrive:
			r.record(a)
			if want == -1 || a.tid == want {
				return true
			}
		case <-timer.C:
			if want >= 0 {
				r.Steps = append(r.Steps, Step{T: want, B: true, P: r.threads[want].point})
			}
			return false
		}
	}
}

// Run executes the schedule, then runs every unfinished thread to its end
// (round robin, in thread order).  A thread that never finishes is a harness
// error (deadlock), reported in Err.
func (r *Runner) Run(sched []int) {
	for _, i := range sched {
		r.StepThread(i)
	}
	r.BlockWait = 80 * time.Millisecond
	for iter := 0; iter < 400; iter++ {
		pick, left := -1, 0
		for i, t := range r.threads {
			if t.done {
				continue
			}
			left++
			if pick == -1 && !t.pending {
				pick = i
			}
		}
		if left == 0 {
			break
		}
		if r.holder != -1 && !r.threads[r.holder].pending {
			pick = r.holder
		}
		if pick == -1 {
			// only blocked threads are left
			if !r.collect(-1, r.StepWait) {
				r.Err = "deadlock: " + r.stuck()
				break
			}
			continue
		}
		r.StepThread(pick)
	}
	for _, t := range r.threads {
		if !t.done && r.Err == "" {
			r.Err = "deadlock: " + r.stuck()
		}
	}
}
