package rl

import (
	"fmt"
	"path/filepath"
	"sort"
	"strings"
	"sync/atomic"
	"time"

	"github.com/miekg/dns"
)

// Shape says which parts of the answer for a cache key carry a generation stamp.
type Shape struct {
	Refused  bool `json:"refused"`
	Weighted bool `json:"weighted"`
	Ans      bool `json:"ans"`
	Extra    bool `json:"extra"`
	// with RocksDB the data of the answer phase / of the SOA-NS-additional phase was already fetched
	// by IsAuthoritative in the same request (per-request context cache of the rdb driver)
	AnsCached   bool `json:"ans_cached"`
	ExtraCached bool `json:"extra_cached"`
}

// DiskEntry is one path of the initial disk.
type DiskEntry struct {
	Path int  `json:"path"`
	File File `json:"file"`
}

// Case is one schedule (input) with its observations (output).
type Case struct {
	Kind    string       `json:"kind"` // "sched" | "hist" (c12 sequential history on two handlers)
	Class   string       `json:"class"`
	Cfg     Config       `json:"cfg"`
	Threads []ThreadSpec `json:"threads"`
	Disk    []DiskEntry  `json:"disk"`
	P0      int          `json:"p0"`
	Sched   []int        `json:"sched"`
	// derived by the harness from the query (static zone layout)
	Keys   []int   `json:"keys"`   // per thread: cache key id of a query, -1 otherwise
	Shapes []Shape `json:"shapes"` // per thread: shape of the answer of a query
	// observations
	Steps  []Step   `json:"steps"`
	Resps  []Resp   `json:"resps"`
	RelErr []string `json:"relerr"`
	Err    string   `json:"err"`
	// c12 histories: the same events on a handler with cache (Hist1) and without (Hist0)
	Hist1 []HistObs `json:"hist1,omitempty"`
	Hist0 []HistObs `json:"hist0,omitempty"`
	Locs  []int     `json:"locs,omitempty"` // per thread: location id the static maps give the requester
}

// Query shapes of the stamped zone.
var shapeTable = map[string]Shape{
	"example.com.|15":      {Ans: true, Extra: true, AnsCached: true}, // MX: preference + additional A (a new key)
	"www.example.com.|1":   {Ans: true, AnsCached: true},
	"txt.example.com.|16":  {Ans: true, AnsCached: true},
	"geo.example.com.|1":   {Ans: true, AnsCached: true},
	"nx.example.com.|1":    {Extra: true, AnsCached: true, ExtraCached: true}, // NXDOMAIN: SOA serial of the apex
	"www.example.com.|16":  {Extra: true, AnsCached: true, ExtraCached: true}, // NODATA: SOA serial
	"www.example.com.|28":  {Extra: true, AnsCached: true, ExtraCached: true},
	"x.sub.example.com.|1": {Extra: true, AnsCached: true}, // referral: glue (a new key)
	"wrr.example.com.|1":   {Ans: true, Weighted: true, AnsCached: true},
	"other.org.|1":         {Refused: true},
	// NS / MX sets with one target that needs a weighted draw (OR over all targets)
	"d1.example.com.|2":  {Weighted: true, AnsCached: true},
	"d2.example.com.|2":  {Weighted: true, AnsCached: true},
	"d3.example.com.|2":  {Weighted: true, AnsCached: true},
	"m1.example.com.|15": {Weighted: true, AnsCached: true},
	"m2.example.com.|15": {Weighted: true, AnsCached: true},
	"m3.example.com.|15": {Weighted: true, AnsCached: true},
	"example.com.|6":     {Ans: true, AnsCached: true}, // SOA
}

// hasMap: names for which the static part declares a resolver / ECS map; every other
// name is looked up with the empty location whoever asks.
func hasMap(name string) bool { return name == "example.com." || name == "geo.example.com." }

// LocOf is the location the static maps give a requester.
func LocOf(t ThreadSpec) int {
	if !hasMap(strings.ToLower(t.Name)) {
		return 0
	}
	loc := func(ip string) int {
		switch {
		case strings.HasPrefix(ip, "192.0.2."):
			return 2
		case strings.HasPrefix(ip, "198.18.0."):
			return 0x003a // location id bytes \000 \072
		case strings.HasPrefix(ip, "203.0.113."):
			return 0x013a // location id bytes \001 \072
		}
		return 1
	}
	if t.Edns && t.ECS != "" {
		return loc(t.ECS)
	}
	return loc(t.IP)
}

// Derive fills Keys and Shapes.
func (c *Case) Derive() {
	ids := map[string]int{}
	c.Keys = make([]int, len(c.Threads))
	c.Shapes = make([]Shape, len(c.Threads))
	c.Locs = make([]int, len(c.Threads))
	for i, t := range c.Threads {
		c.Keys[i] = -1
		if t.Kind != "q" {
			continue
		}
		qc := t.Qclass
		if qc == 0 {
			qc = int(dns.ClassINET)
		}
		name := strings.ToLower(t.Name)
		sh := shapeTable[fmt.Sprintf("%s|%d", name, t.Qtype)]
		// the handler does not look at the class when it searches the answer
		if !strings.HasSuffix(name, "example.com.") {
			sh = Shape{Refused: true}
		}
		loc := LocOf(t)
		c.Locs[i] = loc
		k := fmt.Sprintf("%d|%d|%d|%s", loc, t.Qtype, qc, name)
		if _, ok := ids[k]; !ok {
			ids[k] = len(ids)
		}
		c.Keys[i] = ids[k]
		c.Shapes[i] = sh
	}
}

func sortedInts(l []int) []int {
	m := map[int]bool{}
	for _, x := range l {
		m[x] = true
	}
	r := []int{}
	for x := range m {
		r = append(r, x)
	}
	sort.Ints(r)
	return r
}

// RunSched executes the schedule of c against a fresh handler in its own world directory.
var Prof [6]int64

func RunSched(pool *Pool, dir string, c *Case, cacheOverride *bool) (steps []Step, resps []Resp, relerr []string, errs string) {
	t0 := time.Now()
	lap := func(i int) { atomic.AddInt64(&Prof[i], int64(time.Since(t0))); t0 = time.Now() }
	defer lap(5)
	w := &World{Dir: dir, Backend: c.Cfg.Backend, Pool: pool}
	defer w.Cleanup()
	updated := map[int]bool{}
	for _, t := range c.Threads {
		if t.Kind == "e" {
			updated[t.Path] = true
		}
	}
	disk := map[int]File{}
	for _, e := range c.Disk {
		var err error
		if w.Backend == "cdb" && pool != nil && e.File.OK && !updated[e.Path] {
			err = w.Alias(e.Path, e.File)
		} else {
			err = w.Create(e.Path, e.File)
		}
		if err != nil {
			return nil, nil, nil, "create: " + err.Error()
		}
		disk[e.Path] = e.File
	}
	lap(0)
	cfg := c.Cfg
	if cacheOverride != nil {
		cfg.Cache = *cacheOverride
	}
	if cfg.Cache && cfg.LRU == 0 {
		cfg.LRU = 64
	}
	st := NewSafeStats()
	h, err := NewHandler(w, cfg, c.P0, st)
	if err != nil {
		return nil, nil, nil, "handler: " + err.Error()
	}
	lap(1)
	r := NewRunner(w, h, st, disk, c.Threads)
	r.Run(c.Sched)
	lap(2)
	// normalise the stamp lists (set semantics)
	for i := range r.Resps {
		r.Resps[i].Ans = sortedInts(r.Resps[i].Ans)
		r.Resps[i].Extra = sortedInts(r.Resps[i].Extra)
	}
	if r.Err == "" {
		done := make(chan struct{})
		go func() { h.Close(); close(done) }()
		select {
		case <-done:
		case <-time.After(10 * time.Second):
			r.Err = "deadlock: handler Close never returned"
		}
	}
	lap(3)
	return r.Steps, r.Resps, r.RelErr, r.Err
}

// ScratchSub returns a fresh sub directory name.
func ScratchSub(base string, n int) string { return filepath.Join(base, fmt.Sprintf("w%d", n)) }
