// Package rl is the shared part of the C05 / C12 harnesses: stamped databases
// (every generation is a separately compiled database whose A, MX, TXT and SOA
// records carry the generation number), a deterministic scheduler that parks the
// goroutines of the real handler at its verif yield points and releases them in
// the order of a schedule, and the extraction of the stamps from responses.
package rl

import (
	"flag"
	"fmt"
	"io"
	"log"
	"os"
	"path/filepath"
	"strings"
	"sync"

	"github.com/facebookincubator/dns/dnsrocks/dnsdata/cdb"
	"github.com/facebookincubator/dns/dnsrocks/dnsdata/rdb"
)

// File is the content of a database path: generation stamp, whether it can be
// opened at all, and whether it contains the validation key.
type File struct {
	Stamp int  `json:"stamp"`
	OK    bool `json:"ok"`
	Key   bool `json:"key"`
}

// World is a scratch directory holding database paths of one backend kind.
type World struct {
	Dir     string
	Backend string // "cdb" | "rdb1" | "rdb2"
	Pool    *Pool  // optional: compiled generations are copied from templates
	seq     int
	alias   map[int]string // cdb paths served straight from the (immutable) template
	made    bool
}

func (w *World) mkdir() error {
	if w.made {
		return nil
	}
	w.made = true
	return os.MkdirAll(w.Dir, 0o755)
}

// Cleanup removes what the world created.
func (w *World) Cleanup() {
	if w.made {
		os.RemoveAll(w.Dir)
	}
}

// Alias makes path p of a cdb world refer to the compiled template itself (no file is
// created); only for paths that are never updated on disk.
func (w *World) Alias(p int, f File) error {
	t, err := w.Pool.Template(w.Backend, f)
	if err != nil {
		return err
	}
	if w.alias == nil {
		w.alias = map[int]string{}
	}
	w.alias[p] = t
	return nil
}

// Pool compiles every (backend, generation) once with the real compiler; worlds copy
// the result (a closed RocksDB directory / a cdb file is a plain copyable artifact).
type Pool struct {
	Dir  string
	mu   sync.Mutex
	done map[string]*tpl
}

type tpl struct {
	once sync.Once
	path string
	err  error
}

// Template returns the path of the compiled template of f for the backend.
func (p *Pool) Template(backend string, f File) (string, error) {
	key := fmt.Sprintf("%s-s%d-k%v", backend, f.Stamp, f.Key)
	p.mu.Lock()
	if p.done == nil {
		p.done = map[string]*tpl{}
	}
	t, ok := p.done[key]
	if !ok {
		t = &tpl{}
		p.done[key] = t
	}
	p.mu.Unlock()
	t.once.Do(func() {
		w := &World{Dir: filepath.Join(p.Dir, key), Backend: backend}
		if t.err = os.MkdirAll(w.Dir, 0o755); t.err != nil {
			return
		}
		if t.err = w.Create(0, f); t.err != nil {
			return
		}
		t.path = w.Path(0)
	})
	return t.path, t.err
}

func copyFile(src, dst string) error {
	in, err := os.Open(src)
	if err != nil {
		return err
	}
	defer in.Close()
	out, err := os.Create(dst)
	if err != nil {
		return err
	}
	if _, err := io.Copy(out, in); err != nil {
		out.Close()
		return err
	}
	return out.Close()
}

func copyTree(src, dst string) error {
	if err := os.MkdirAll(dst, 0o755); err != nil {
		return err
	}
	ents, err := os.ReadDir(src)
	if err != nil {
		return err
	}
	for _, e := range ents {
		if e.IsDir() {
			if err := copyTree(filepath.Join(src, e.Name()), filepath.Join(dst, e.Name())); err != nil {
				return err
			}
			continue
		}
		if e.Name() == "LOCK" || e.Name() == "LOG" || strings.HasPrefix(e.Name(), "LOG.old") {
			continue
		}
		if strings.HasSuffix(e.Name(), ".sst") {
			// table files are never modified in place (an updated primary writes new ones)
			if os.Link(filepath.Join(src, e.Name()), filepath.Join(dst, e.Name())) == nil {
				continue
			}
		}
		if err := copyFile(filepath.Join(src, e.Name()), filepath.Join(dst, e.Name())); err != nil {
			return err
		}
	}
	return nil
}

// Driver is the db driver name of the backend.
func (w *World) Driver() string {
	if w.Backend == "cdb" {
		return "cdb"
	}
	return "rocksdb"
}

// Rocks says whether the backend is RocksDB.
func (w *World) Rocks() bool { return w.Backend != "cdb" }

// Path maps a model path number to a file system path.
func (w *World) Path(p int) string {
	if t, ok := w.alias[p]; ok {
		return t
	}
	if w.Backend == "cdb" {
		return filepath.Join(w.Dir, fmt.Sprintf("p%d.cdb", p))
	}
	return filepath.Join(w.Dir, fmt.Sprintf("p%d", p))
}

// static part: location maps (resolver and ECS), identical in all generations
const staticText = `%\000\002,192.0.2.0/24,c\000
%\000\072,198.18.0.0/24,c\000
%\001\072,203.0.113.0/24,c\000
%\000\001,0.0.0.0/0,c\000
%\000\001,::/0,c\000
%\000\002,192.0.2.0/24,ec
%\000\072,198.18.0.0/24,ec
%\001\072,203.0.113.0/24,ec
%\000\001,0.0.0.0/0,ec
%\000\001,::/0,ec
Mexample.com,c\000
8example.com,ec
Mgeo.example.com,c\000
8geo.example.com,ec
&example.com,,a.ns.example.com,172800,,
&sub.example.com,,ns.sub.example.com,300,,
`

// stampedLines are the records that carry the generation number s (1..255).
func stampedLines(s int, key bool) []string {
	l := []string{
		fmt.Sprintf("Zexample.com,a.ns.example.com,dns.example.com,%d,7200,1800,604800,120,120,,", s),
		fmt.Sprintf("+a.ns.example.com,10.0.%d.9,172800,,", s),
		fmt.Sprintf("+www.example.com,10.0.%d.1,60,,", s),
		fmt.Sprintf("+geo.example.com,10.1.%d.1,60,,\\000\\001", s),
		fmt.Sprintf("+geo.example.com,10.2.%d.1,60,,\\000\\002", s),
		// two locations whose ids agree in the second byte (and differ from 0/1, 0/2 in it)
		fmt.Sprintf("+geo.example.com,10.3.%d.1,60,,\\000\\072", s),
		fmt.Sprintf("+geo.example.com,10.4.%d.1,60,,\\001\\072", s),
		fmt.Sprintf("@example.com,,mail.example.com,%d,300,,", s),
		fmt.Sprintf("+mail.example.com,10.0.%d.2,60,,", s),
		fmt.Sprintf("'txt.example.com,g-%d,60,,", s),
		fmt.Sprintf("+wrr.example.com,10.9.%d.1,60,,,10", s),
		fmt.Sprintf("+wrr.example.com,10.9.%d.2,60,,,20", s),
		fmt.Sprintf("+ns.sub.example.com,10.0.%d.3,60,,", s),
	}
	// NS / MX sets whose targets need a weighted draw for their address (ta: three candidates) or
	// not (tb, tc: one address): weighted target first / last / in the middle.  The response is
	// subject to weighted selection whichever target it is, so it must never enter the cache.
	l = append(l,
		fmt.Sprintf("+ta.example.com,10.7.%d.1,60,,,1", s),
		fmt.Sprintf("+ta.example.com,10.7.%d.2,60,,,1", s),
		fmt.Sprintf("+ta.example.com,10.7.%d.3,60,,,1", s),
		fmt.Sprintf("+tb.example.com,10.7.%d.9,60,,", s),
		fmt.Sprintf("+tc.example.com,10.7.%d.8,60,,", s),
		"&d1.example.com,,ta.example.com,300,,", "&d1.example.com,,tb.example.com,300,,",
		"&d2.example.com,,tb.example.com,300,,", "&d2.example.com,,ta.example.com,300,,",
		"&d3.example.com,,tb.example.com,300,,", "&d3.example.com,,ta.example.com,300,,", "&d3.example.com,,tc.example.com,300,,",
		"@m1.example.com,,ta.example.com,10,300,,", "@m1.example.com,,tb.example.com,20,300,,",
		"@m2.example.com,,tb.example.com,10,300,,", "@m2.example.com,,ta.example.com,20,300,,",
		"@m3.example.com,,tb.example.com,10,300,,", "@m3.example.com,,ta.example.com,20,300,,", "@m3.example.com,,tc.example.com,30,300,,",
	)
	if key {
		l = append(l, "+valid.example.com,10.0.0.4,60,,")
	}
	return l
}

// DataText is the whole input text of generation f.
func DataText(f File) string {
	return staticText + strings.Join(stampedLines(f.Stamp, f.Key), "\n") + "\n"
}

// DiffText turns generation old into generation new (dnsrocks-applyrdb input).
func DiffText(old, new File) string {
	var b strings.Builder
	o, n := stampedLines(old.Stamp, old.Key), stampedLines(new.Stamp, new.Key)
	in := func(l []string, x string) bool {
		for _, y := range l {
			if x == y {
				return true
			}
		}
		return false
	}
	for _, x := range o {
		if !in(n, x) {
			b.WriteString("-" + x + "\n")
		}
	}
	for _, x := range n {
		if !in(o, x) {
			b.WriteString("+" + x + "\n")
		}
	}
	return b.String()
}

// ValidationKey is the database key of valid.example.com (non-located).
func (w *World) ValidationKey() []byte {
	name := []byte("\x05valid\x07example\x03com\x00")
	if w.Backend == "rdb2" {
		k := []byte{0, 'o'}
		k = append(k, []byte("\x03com\x07example\x05valid\x00")...)
		return append(k, 0, 0)
	}
	return append([]byte{0, 0}, name...)
}

func (w *World) tmp(suffix string) string {
	w.seq++
	return filepath.Join(w.Dir, fmt.Sprintf("tmp%d%s", w.seq, suffix))
}

// Create builds a database with content f at path p with the real compiler.
// An unreadable path is a directory (cdb) / a directory that is no database (rocksdb).
func (w *World) Create(p int, f File) error {
	if err := w.mkdir(); err != nil {
		return err
	}
	dst := w.Path(p)
	if !f.OK {
		if w.Backend == "cdb" {
			// a directory where the cdb file should be: open succeeds, reading it fails.
			// (A regular file with garbage content is NOT unreadable for the cdb driver: it
			// is opened and accepted unless a validation key is configured.)
			return os.MkdirAll(dst, 0o755)
		}
		if err := os.MkdirAll(dst, 0o755); err != nil {
			return err
		}
		return os.WriteFile(filepath.Join(dst, "CURRENT"), []byte("MANIFEST-999999\n"), 0o644)
	}
	if w.Pool != nil {
		t, err := w.Pool.Template(w.Backend, f)
		if err != nil {
			return err
		}
		if w.Backend == "cdb" {
			// a compiled cdb file is immutable: a hard link is as good as a copy, and
			// renaming over it only replaces this world's directory entry
			tmp := w.tmp(".cdb")
			if err := os.Link(t, tmp); err != nil {
				if err := copyFile(t, tmp); err != nil {
					return err
				}
			}
			return os.Rename(tmp, dst)
		}
		return copyTree(t, dst)
	}
	in := w.tmp(".in")
	if err := os.WriteFile(in, []byte(DataText(f)), 0o644); err != nil {
		return err
	}
	defer os.Remove(in)
	if w.Backend == "cdb" {
		t := w.tmp(".cdb")
		if _, err := cdb.CreateCDB(in, t, nil); err != nil {
			return fmt.Errorf("cdb compile: %w", err)
		}
		return os.Rename(t, dst) // atomically replaces an existing file
	}
	if err := os.MkdirAll(dst, 0o755); err != nil {
		return err
	}
	_, err := rdb.CompileToSpecificRDBVersion(in, dst, rdb.CompilationOptions{UseV2KeySyntax: w.Backend == "rdb2", UseBuilder: true})
	if err != nil {
		return fmt.Errorf("rdb compile: %w", err)
	}
	return nil
}

// Update changes the content of path p from old to new: cdb = compile and rename
// over the path; rocksdb = apply a diff to the primary (opened, updated, flushed
// and closed), which secondaries see at their next catch-up.
func (w *World) Update(p int, old, new File) error {
	if w.Backend == "cdb" {
		return w.Create(p, new)
	}
	d := w.tmp(".diff")
	if err := os.WriteFile(d, []byte(DiffText(old, new)), 0o644); err != nil {
		return err
	}
	defer os.Remove(d)
	return rdb.ApplyDiff(d, w.Path(p))
}

// Stderr is the process's real standard error (QuietLogs points os.Stderr elsewhere).
var Stderr io.Writer = os.Stderr

// QuietLogs silences the loggers of the code under test: glog would otherwise create
// files in the temp directory and fsync every error line; the compilers log through log.
func QuietLogs() {
	Stderr = os.NewFile(uintptr(2), "/dev/stderr")
	flag.Set("logtostderr", "true")
	if null, err := os.OpenFile(os.DevNull, os.O_WRONLY, 0); err == nil {
		os.Stderr = null
	}
	log.SetOutput(io.Discard)
}
