package rl

import (
	"context"
	"fmt"
	"sync"
	"time"

	"github.com/coredns/coredns/plugin/pkg/dnstest"

	"github.com/facebookincubator/dns/dnsrocks/dnsserver"
	"github.com/facebookincubator/dns/dnsrocks/dnsserver/test"
)

// Stress runs clients free (no scheduler) against reloads that install strictly increasing
// stamps, and checks on the spot (support only, not replayable): every response carries one
// stamp (cdb, and RocksDB without partial reloads), stamps seen by one client never decrease,
// and a query that started after a reload returned carries at least that reload's stamp.
// It returns "" or a description of the first violation.
func Stress(pool *Pool, dir, backend string, clients int, d time.Duration) string {
	w := &World{Dir: dir, Backend: backend, Pool: pool}
	defer w.Cleanup()
	paths := 4
	for p := 0; p < paths; p++ {
		if err := w.Create(p, File{Stamp: 1 + p, OK: true, Key: true}); err != nil {
			return "stress: create: " + err.Error()
		}
	}
	h, err := NewHandler(w, Config{Backend: backend}, 0, NewSafeStats())
	if err != nil {
		return "stress: handler: " + err.Error()
	}
	InstallHook()
	type obs struct {
		start, end time.Time
		stamps     []int
	}
	type inst struct {
		ret   time.Time
		stamp int
	}
	var mu sync.Mutex
	var installs []inst
	seen := make([][]obs, clients)
	stop := make(chan struct{})
	var wg sync.WaitGroup
	for c := 0; c < clients; c++ {
		wg.Add(1)
		go func(c int) {
			defer wg.Done()
			t := ThreadSpec{Kind: "q", Name: "example.com.", Qtype: 15, IP: "198.51.100.7"}
			for i := 0; ; i++ {
				select {
				case <-stop:
					return
				default:
				}
				req := BuildRequest(t, uint16(i))
				rec := dnstest.NewRecorder(&test.ResponseWriterCustomRemote{RemoteIP: t.IP})
				o := obs{start: time.Now()}
				rcode, err := h.ServeDNSWithRCODE(dnsserver.WithMaxAnswer(context.Background(), 1), rec, req)
				o.end = time.Now()
				r := Observe(rec.Msg, rcode, err)
				o.stamps = append(append([]int{}, r.Ans...), r.Extra...)
				seen[c] = append(seen[c], o)
			}
		}(c)
	}
	deadline := time.Now().Add(d)
	stamp := paths
	for p, lap := 1, 0; time.Now().Before(deadline) && stamp < 240; p = (p + 1) % paths {
		if p == 0 {
			lap++
		}
		target := 1 + p
		if lap > 0 {
			if backend != "cdb" {
				break // RocksDB: one lap over the prepared paths (stamps 2, 3, 4)
			}
			// cdb: the path gets a fresh, larger stamp (file replaced by rename), then the switch
			stamp++
			target = stamp
			if err := w.Create(p, File{Stamp: stamp, OK: true, Key: true}); err != nil {
				close(stop)
				wg.Wait()
				return "stress: update: " + err.Error()
			}
		}
		if err := h.Reload(*dnsserver.NewFullReloadSignal(w.Path(p))); err != nil {
			close(stop)
			wg.Wait()
			return "stress: reload failed: " + err.Error()
		}
		mu.Lock()
		installs = append(installs, inst{time.Now(), target})
		mu.Unlock()
		time.Sleep(2 * time.Millisecond)
	}
	close(stop)
	wg.Wait()
	h.Close()
	n := 0
	for c := range seen {
		last := 0
		for _, o := range seen[c] {
			n++
			if len(o.stamps) != 2 || o.stamps[0] != o.stamps[1] {
				return fmt.Sprintf("stress: client %d got a response with stamps %v", c, o.stamps)
			}
			if o.stamps[0] < last {
				return fmt.Sprintf("stress: client %d saw stamp %d after %d", c, o.stamps[0], last)
			}
			last = o.stamps[0]
			for _, in := range installs {
				if in.ret.Before(o.start) && o.stamps[0] < in.stamp {
					return fmt.Sprintf("stress: client %d started a query after the reload to stamp %d returned and got %d", c, in.stamp, o.stamps[0])
				}
			}
		}
	}
	if n == 0 || len(installs) == 0 {
		return "stress: nothing happened"
	}
	return ""
}
