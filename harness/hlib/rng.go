// Package hlib is the shared part of the correspondence harness: the single
// PRNG every choice is derived from, command-line handling and the JSON-lines
// emitter.
package hlib

// Rng is splitmix64; all random choices of a harness run come from one state so
// that a disagreement replays exactly from (seed, generator version).
type Rng struct{ s uint64 }

// NewRng returns a generator seeded with seed; stream separates sub-generators.
func NewRng(seed uint64, stream uint64) *Rng {
	r := &Rng{s: seed*0x9E3779B97F4A7C15 + stream*0xD1B54A32D192ED03 + 0x1234567}
	r.U64()
	return r
}

// U64 returns the next 64 random bits.
func (r *Rng) U64() uint64 {
	r.s += 0x9E3779B97F4A7C15
	z := r.s
	z = (z ^ (z >> 30)) * 0xBF58476D1CE4E5B9
	z = (z ^ (z >> 27)) * 0x94D049BB133111EB
	return z ^ (z >> 31)
}

// Intn returns a number in [0,n).
func (r *Rng) Intn(n int) int {
	if n <= 0 {
		return 0
	}
	return int(r.U64() % uint64(n))
}

// Chance returns true with probability num/den.
func (r *Rng) Chance(num, den int) bool { return r.Intn(den) < num }

// Bytes returns n random bytes drawn from alphabet (any byte if alphabet is empty).
func (r *Rng) Bytes(n int, alphabet []byte) []byte {
	b := make([]byte, n)
	for i := range b {
		if len(alphabet) == 0 {
			b[i] = byte(r.U64())
		} else {
			b[i] = alphabet[r.Intn(len(alphabet))]
		}
	}
	return b
}

// Pick returns a random index weighted by w.
func (r *Rng) Pick(w []int) int {
	t := 0
	for _, x := range w {
		t += x
	}
	k := r.Intn(t)
	for i, x := range w {
		if k < x {
			return i
		}
		k -= x
	}
	return len(w) - 1
}

// Shuffle permutes n items through swap.
func (r *Rng) Shuffle(n int, swap func(i, j int)) {
	for i := n - 1; i > 0; i-- {
		swap(i, r.Intn(i+1))
	}
}
