package hlib

import (
	"bufio"
	"encoding/json"
	"flag"
	"fmt"
	"os"
)

// Args are the common command line arguments of every property harness.
type Args struct {
	Seed    uint64
	N       int
	Tier    string
	Scratch string
	Replay  string // file of JSON-lines cases whose inputs are re-run instead of generating
	Extra   string
}

// Emitter writes one JSON object per line.
type Emitter struct {
	w *bufio.Writer
	N int
}

// Emit writes one case.
func (e *Emitter) Emit(v interface{}) {
	b, err := json.Marshal(v)
	if err != nil {
		panic(err)
	}
	e.w.Write(b)
	e.w.WriteByte('\n')
	e.N++
}

// Main parses flags, opens the output and calls run.
func Main(run func(a *Args, e *Emitter) error) {
	a := &Args{}
	flag.Uint64Var(&a.Seed, "seed", 1, "PRNG seed")
	flag.IntVar(&a.N, "n", 100, "number of generated cases")
	flag.StringVar(&a.Tier, "tier", "quick", "quick|thorough")
	flag.StringVar(&a.Scratch, "scratch", "", "scratch directory")
	flag.StringVar(&a.Replay, "replay", "", "file with cases (inputs) to re-run instead of generating")
	flag.StringVar(&a.Extra, "extra", "", "property specific option")
	out := flag.String("out", "", "output file (JSON lines)")
	flag.Parse()
	f := os.Stdout
	if *out != "" {
		var err error
		f, err = os.Create(*out)
		if err != nil {
			fmt.Fprintln(os.Stderr, err)
			os.Exit(2)
		}
		defer f.Close()
	}
	e := &Emitter{w: bufio.NewWriterSize(f, 1<<20)}
	err := run(a, e)
	e.w.Flush()
	if err != nil {
		fmt.Fprintln(os.Stderr, "harness error:", err)
		os.Exit(3)
	}
}

// Ints turns a byte slice into a JSON-friendly list of numbers
// (encoding/json would print []byte as base64).
func Ints(b []byte) []int {
	r := make([]int, len(b))
	for i, c := range b {
		r[i] = int(c)
	}
	return r
}

// Unints is the inverse of Ints.
func Unints(v []int) []byte {
	r := make([]byte, len(v))
	for i, c := range v {
		r[i] = byte(c)
	}
	return r
}

// ReadReplay loads replay cases (JSON lines) as generic maps.
func ReadReplay(path string) ([]map[string]json.RawMessage, error) {
	f, err := os.Open(path)
	if err != nil {
		return nil, err
	}
	defer f.Close()
	var res []map[string]json.RawMessage
	sc := bufio.NewScanner(f)
	sc.Buffer(make([]byte, 1<<20), 1<<28)
	for sc.Scan() {
		if len(sc.Bytes()) == 0 {
			continue
		}
		m := map[string]json.RawMessage{}
		if err := json.Unmarshal(sc.Bytes(), &m); err != nil {
			return nil, err
		}
		res = append(res, m)
	}
	return res, sc.Err()
}
