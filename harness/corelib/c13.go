package corelib

import (
	"fmt"

	"github.com/miekg/dns"

	"verifharness/hlib"
)

// GenWireQueries draws arbitrary wire-valid query messages (packed, then checked to unpack):
// every opcode, class, EDNS version, option list and client-subnet contents; one question.
func GenWireQueries(g *Gen, n int, badvers bool) []Query {
	r := g.R
	var qs []Query
	for len(qs) < n {
		var name Name
		cls := "rand"
		switch r.Pick([]int{3, 3, 1, 2, 1}) {
		case 0:
			if len(g.Names) > 0 {
				name = append(Name{}, g.Names[r.Intn(len(g.Names))]...)
				cls = "declared"
			}
		case 1:
			if len(g.Names) > 0 {
				name = append(Name{}, g.Names[r.Intn(len(g.Names))]...)
			}
			k := 1 + r.Intn(3)
			for i := 0; i < k; i++ {
				name = name.Child(string(r.Bytes(1+r.Intn(5), []byte("ab-_Z9!\x00\xff. *"))))
			}
			cls = "child"
		case 2:
			name = Name{}
			cls = "root"
		case 3: // arbitrary labels, any byte value, any length up to the limit
			k := r.Intn(6)
			for i := 0; i < k; i++ {
				name = append(name, r.Bytes(1+r.Intn([]int{1, 5, 63}[r.Intn(3)]), nil))
			}
			for len(name.Pack()) > 255 {
				name = name[1:]
			}
			cls = "bytes"
		default: // the longest names
			for len(name.Pack()) < 200 {
				name = append(name, r.Bytes(20+r.Intn(44), []byte("abcxyz019-")))
			}
			for len(name.Pack()) > 255 {
				name = name[1:]
			}
			cls = "long"
		}
		q := QSpec{Name: name, ID: r.Intn(65536), Flags: r.Intn(32), Class: 1, Opcode: 0}
		q.Type = []int{1, 28, 2, 6, 43, 255, 16, 5, 15, 0, 41, 250, 251, 252, 65535, r.Intn(65536)}[r.Intn(16)]
		if r.Chance(1, 3) {
			q.Class = []int{0, 1, 3, 4, 254, 255, r.Intn(65536)}[r.Intn(7)]
		}
		if r.Chance(1, 3) {
			q.Opcode = r.Intn(16)
		}
		if badvers {
			q.Edns = true
			q.Version = []int{1, 2, 255, 1 + r.Intn(255)}[r.Intn(4)]
		} else if r.Chance(2, 3) {
			q.Edns = true
		}
		if q.Edns {
			q.Size = []int{0, 512, 1232, 4096, 65535, r.Intn(65536)}[r.Intn(6)]
			q.DO = r.Chance(1, 2)
			no := r.Pick([]int{3, 4, 2, 1})
			for i := 0; i < no; i++ {
				switch r.Intn(7) {
				case 0:
					q.Opts = append(q.Opts, &dns.EDNS0_NSID{Code: dns.EDNS0NSID, Nsid: ""})
				case 1:
					q.Opts = append(q.Opts, &dns.EDNS0_COOKIE{Code: dns.EDNS0COOKIE, Cookie: "0102030405060708"})
				case 2:
					q.Opts = append(q.Opts, &dns.EDNS0_PADDING{Padding: r.Bytes(r.Intn(40), nil)})
				case 3:
					q.Opts = append(q.Opts, &dns.EDNS0_LOCAL{Code: uint16(65001 + r.Intn(500)), Data: r.Bytes(r.Intn(20), nil)})
				case 4:
					q.Opts = append(q.Opts, &dns.EDNS0_LOCAL{Code: uint16(20 + r.Intn(1000)), Data: r.Bytes(r.Intn(8), nil)})
				default:
					e := Ecs([]string{"10.0.0.0", "10.1.2.3", "172.16.5.0", "0.0.0.0", "255.255.255.255", "fd00::", "::", "2001:db8::1", "::ffff:10.0.0.1"}[r.Intn(9)], 0, r.Intn(200))
					if e.Family == 1 {
						e.SourceNetmask = uint8([]int{0, 1, 8, 16, 24, 32, r.Intn(33)}[r.Intn(7)])
					} else {
						e.SourceNetmask = uint8([]int{0, 1, 48, 56, 64, 96, 128, r.Intn(129)}[r.Intn(8)])
					}
					if r.Chance(1, 8) {
						e.Family = 0
						e.SourceNetmask = 0
						e.Address = nil
					}
					q.Opts = append(q.Opts, e)
				}
			}
		}
		wire, err := PackQuery(q)
		if err != nil {
			continue
		}
		qs = append(qs, Query{Wire: wire, Client: Clients[r.Intn(len(Clients))], Max: []int{1, 1, 2, 3, 0, 8}[r.Intn(6)], Class_: cls})
	}
	return qs
}

// GenUdpQueries draws queries for the size clause: no EDNS / EDNS sizes 512, 600, 1232, 4096,
// with and without a client-subnet option (v4 /24, v6 /56, v6 /128) and DO.
func GenUdpQueries(g *Gen, n int) []Query {
	r := g.R
	var qs []Query
	for len(qs) < n {
		var name Name
		if len(g.Names) > 0 {
			name = append(Name{}, g.Names[r.Intn(len(g.Names))]...)
		}
		if r.Chance(1, 6) {
			name = name.Child(g.label())
		}
		q := QSpec{Name: name, ID: r.Intn(65536), Class: 1, Flags: r.Intn(2)}
		q.Type = []int{16, 16, 2, 15, 255, 1, 28, 6}[r.Intn(8)]
		if len(g.Zones) > 0 && r.Chance(2, 3) {
			// the names with large record sets
			z := g.Zones[0]
			switch r.Intn(5) {
			case 0:
				q.Name, q.Type = z, 2
			case 1:
				q.Name, q.Type = z.Child("lotofns").Child(g.label()), 1
			case 2:
				q.Name, q.Type = z.Child("mail"), 15
			case 3:
				q.Name, q.Type = z.Child("huge"), 16
			default:
				q.Name, q.Type = z.Child(fmt.Sprintf("t%d", []int{3 + r.Intn(12), 20}[r.Intn(2)])), 16
			}
		}
		switch r.Intn(6) {
		case 0: // no EDNS
		default:
			q.Edns = true
			q.Size = []int{512, 512, 600, 1232, 4096, 0, 700 + r.Intn(200)}[r.Intn(7)]
			q.DO = r.Chance(1, 2)
			switch r.Intn(5) {
			case 0:
				q.Opts = []dns.EDNS0{Ecs("10.0.0.0", 24, 0)}
			case 1:
				q.Opts = []dns.EDNS0{Ecs("fd00:1:2:3::", 56, 0)}
			case 2:
				q.Opts = []dns.EDNS0{Ecs("2001:db8::1", 128, 0)}
			case 3:
				q.Opts = []dns.EDNS0{&dns.EDNS0_COOKIE{Code: dns.EDNS0COOKIE, Cookie: "0102030405060708"}, Ecs("172.16.5.0", 24, 0)}
			}
		}
		wire, err := PackQuery(q)
		if err != nil {
			continue
		}
		qs = append(qs, Query{Wire: wire, Client: Clients[r.Intn(len(Clients))], Max: 1 + r.Intn(3), Class_: "udp", Udp: true})
	}
	return qs
}

// RunWire is the body of the C13 harness command: per database two cases, one with the
// queries of EDNS version 0 / without OPT, one with the queries of another EDNS version.
func RunWire(a *hlib.Args, e *hlib.Emitter, stream uint64) error {
	Setup(a)
	var cs []*FileCase
	if a.Replay != "" {
		var err error
		if cs, err = ReadCases(a.Replay); err != nil {
			return err
		}
	} else {
		classes := []string{"root", "rootdeleg", "empty", "basic", "hibyte", "located", "odd", "nested"}
		nq := 40
		if a.Tier == "thorough" {
			nq = 60
		}
		for i := 0; i < a.N; i++ {
			r := hlib.NewRng(a.Seed, stream+uint64(i))
			class := classes[i%len(classes)]
			g := Generate(r, class, 1700000000+int64(r.Intn(1000000)))
			lines := g.Lines
			if lines == nil {
				lines = []Line{}
			}
			cs = append(cs, &FileCase{Class: class, Mtime: g.Mtime, Lines: lines, Queries: GenWireQueries(g, nq, false)})
			cs = append(cs, &FileCase{Class: class + "+badvers", Mtime: g.Mtime, Lines: lines, Queries: GenWireQueries(g, 6, true)})
		}
		// the size clause: replies over UDP against a database with large record sets
		nu := 1
		if a.Tier == "thorough" {
			nu = 12
		}
		for i := 0; i < nu; i++ {
			r := hlib.NewRng(a.Seed, stream+5000+uint64(i))
			g := Generate(r, "udp", 1700000000+int64(r.Intn(1000000)))
			cs = append(cs, &FileCase{Class: "udp", Mtime: g.Mtime, Lines: g.Lines, Queries: GenUdpQueries(g, 36)})
		}
	}
	if err := BuildAll(cs, a.Scratch, 12); err != nil {
		return err
	}
	for _, c := range cs {
		e.Emit(c)
	}
	return nil
}
