package corelib

import (
	"bytes"
	"fmt"

	"github.com/miekg/dns"

	"verifharness/hlib"
)

// GenWireQueries draws arbitrary wire-valid query messages (packed, then checked to unpack):
// every opcode, class, EDNS version, option list and client-subnet contents; one question.
func GenWireQueries(g *Gen, n int, badvers bool) []Query {
	r := g.R
	var qs []Query
	declared := DeclaredTypes(g)
	for len(qs) < n {
		var name Name
		cls := "rand"
		switch r.Pick([]int{3, 3, 1, 2, 1}) {
		case 0:
			if len(g.Names) > 0 {
				name = append(Name{}, g.Names[r.Intn(len(g.Names))]...)
				cls = "declared"
			}
		case 1:
			if len(g.Names) > 0 {
				name = append(Name{}, g.Names[r.Intn(len(g.Names))]...)
			}
			k := 1 + r.Intn(3)
			for i := 0; i < k; i++ {
				name = name.Child(string(r.Bytes(1+r.Intn(5), []byte("ab-_Z9!\x00\xff. *"))))
			}
			cls = "child"
		case 2:
			name = Name{}
			cls = "root"
		case 3: // arbitrary labels, any byte value, any length up to the limit
			k := r.Intn(6)
			for i := 0; i < k; i++ {
				name = append(name, r.Bytes(1+r.Intn([]int{1, 5, 63}[r.Intn(3)]), nil))
			}
			for len(name.Pack()) > 255 {
				name = name[1:]
			}
			cls = "bytes"
		default: // the longest names
			for len(name.Pack()) < 200 {
				name = append(name, r.Bytes(20+r.Intn(44), []byte("abcxyz019-")))
			}
			for len(name.Pack()) > 255 {
				name = name[1:]
			}
			cls = "long"
		}
		q := QSpec{Name: name, ID: r.Intn(65536), Flags: r.Intn(32), Class: 1, Opcode: 0}
		q.Type = []int{1, 28, 2, 6, 43, 255, 16, 5, 15, 0, 41, 250, 251, 252, 65535, r.Intn(65536), 64, 65}[r.Intn(18)]
		if ts := declared[string(name.Lower().Pack())]; len(ts) > 0 && r.Chance(1, 2) {
			// a type declared at this very name, or ANY: every record type is served at least once
			q.Type = ts[r.Intn(len(ts))]
			if r.Chance(1, 4) {
				q.Type = 255
			}
		}
		if r.Chance(1, 3) {
			q.Class = []int{0, 1, 3, 4, 254, 255, r.Intn(65536)}[r.Intn(7)]
		}
		if r.Chance(1, 3) {
			q.Opcode = r.Intn(16)
		}
		if badvers {
			q.Edns = true
			q.Version = []int{1, 2, 255, 1 + r.Intn(255)}[r.Intn(4)]
		} else if r.Chance(2, 3) {
			q.Edns = true
		}
		if q.Edns {
			q.Size = []int{0, 512, 1232, 4096, 65535, r.Intn(65536)}[r.Intn(6)]
			q.DO = r.Chance(1, 2)
			no := r.Pick([]int{3, 4, 2, 1})
			for i := 0; i < no; i++ {
				switch r.Intn(7) {
				case 0:
					q.Opts = append(q.Opts, &dns.EDNS0_NSID{Code: dns.EDNS0NSID, Nsid: ""})
				case 1:
					q.Opts = append(q.Opts, &dns.EDNS0_COOKIE{Code: dns.EDNS0COOKIE, Cookie: "0102030405060708"})
				case 2:
					q.Opts = append(q.Opts, &dns.EDNS0_PADDING{Padding: r.Bytes(r.Intn(40), nil)})
				case 3:
					q.Opts = append(q.Opts, &dns.EDNS0_LOCAL{Code: uint16(65001 + r.Intn(500)), Data: r.Bytes(r.Intn(20), nil)})
				case 4:
					q.Opts = append(q.Opts, &dns.EDNS0_LOCAL{Code: uint16(20 + r.Intn(1000)), Data: r.Bytes(r.Intn(8), nil)})
				default:
					e := Ecs([]string{"10.0.0.0", "10.1.2.3", "172.16.5.0", "0.0.0.0", "255.255.255.255", "fd00::", "::", "2001:db8::1", "::ffff:10.0.0.1"}[r.Intn(9)], 0, r.Intn(200))
					if e.Family == 1 {
						e.SourceNetmask = uint8([]int{0, 1, 8, 16, 24, 32, r.Intn(33)}[r.Intn(7)])
					} else {
						e.SourceNetmask = uint8([]int{0, 1, 48, 56, 64, 96, 128, r.Intn(129)}[r.Intn(8)])
					}
					if r.Chance(1, 8) {
						e.Family = 0
						e.SourceNetmask = 0
						e.Address = nil
					}
					q.Opts = append(q.Opts, e)
				}
			}
		}
		wire, err := PackQuery(q)
		if err != nil {
			continue
		}
		qs = append(qs, Query{Wire: wire, Client: Clients[r.Intn(len(Clients))], Max: []int{1, 1, 2, 3, 0, 8}[r.Intn(6)], Class_: cls})
	}
	if !badvers {
		// every service-binding record and a quarter of the others: its own name and type, or ANY
		for _, l := range g.Lines {
			for _, rc := range l.Recs {
				if !(rc.Type == 64 || rc.Type == 65 || r.Chance(1, 4)) || rc.Wild {
					continue
				}
				q := QSpec{Name: unpackName(hlib.Unints(rc.Owner)), Type: rc.Type, Class: 1, ID: r.Intn(65536), Flags: r.Intn(32)}
				if r.Chance(1, 4) {
					q.Type = 255
				}
				if r.Chance(1, 3) {
					q.Edns, q.Size = true, []int{512, 1232, 4096}[r.Intn(3)]
				}
				wire, err := PackQuery(q)
				if err != nil {
					continue
				}
				qs = append(qs, Query{Wire: wire, Client: Clients[r.Intn(len(Clients))], Max: []int{1, 1, 2, 3, 0, 8}[r.Intn(6)], Class_: "declared-type"})
			}
		}
	}
	return qs
}

// GenUdpQueries draws queries for the size clause: no EDNS / EDNS sizes 512, 600, 1232, 4096,
// with and without a client-subnet option (v4 /24, v6 /56, v6 /128) and DO.
func GenUdpQueries(g *Gen, n int) []Query {
	r := g.R
	var qs []Query
	for len(qs) < n {
		var name Name
		if len(g.Names) > 0 {
			name = append(Name{}, g.Names[r.Intn(len(g.Names))]...)
		}
		if r.Chance(1, 6) {
			name = name.Child(g.label())
		}
		q := QSpec{Name: name, ID: r.Intn(65536), Class: 1, Flags: r.Intn(2)}
		q.Type = []int{16, 16, 2, 15, 255, 1, 28, 6}[r.Intn(8)]
		if len(g.Zones) > 0 && r.Chance(2, 3) {
			// the names with large record sets
			z := g.Zones[0]
			switch r.Intn(5) {
			case 0:
				q.Name, q.Type = z, 2
			case 1:
				q.Name, q.Type = z.Child("lotofns").Child(g.label()), 1
			case 2:
				q.Name, q.Type = z.Child("mail"), 15
			case 3:
				q.Name, q.Type = z.Child("huge"), 16
			default:
				q.Name, q.Type = z.Child(fmt.Sprintf("t%d", []int{3 + r.Intn(12), 20}[r.Intn(2)])), 16
			}
		}
		switch r.Intn(6) {
		case 0: // no EDNS
		default:
			q.Edns = true
			q.Size = []int{512, 512, 600, 1232, 4096, 0, 700 + r.Intn(200)}[r.Intn(7)]
			q.DO = r.Chance(1, 2)
			switch r.Intn(5) {
			case 0:
				q.Opts = []dns.EDNS0{Ecs("10.0.0.0", 24, 0)}
			case 1:
				q.Opts = []dns.EDNS0{Ecs("fd00:1:2:3::", 56, 0)}
			case 2:
				q.Opts = []dns.EDNS0{Ecs("2001:db8::1", 128, 0)}
			case 3:
				q.Opts = []dns.EDNS0{&dns.EDNS0_COOKIE{Code: dns.EDNS0COOKIE, Cookie: "0102030405060708"}, Ecs("172.16.5.0", 24, 0)}
			}
		}
		wire, err := PackQuery(q)
		if err != nil {
			continue
		}
		qs = append(qs, Query{Wire: wire, Client: Clients[r.Intn(len(Clients))], Max: 1 + r.Intn(3), Class_: "udp", Udp: true})
	}
	return qs
}

// cacheQuestion is one question of a cache history together with the inputs that all its
// queries share: the response cache is keyed by (location, type, class, lower-cased name) and
// the answer count is a handler constant - so client, client-subnet option and max are fixed
// per question.  The letter case of the name is NOT fixed: queries of one question spell the
// name as Name or as a random case variant of it (respell); a cached answer keeps the owner
// names of the query that populated the entry, the question echoed must be the asker's own.
type cacheQuestion struct {
	Name   Name
	Type   int
	Class  int
	Client string
	Max    int
	Ecs    *dns.EDNS0_SUBNET // nil: the question is never asked with a client-subnet option
	Cls    string
}

// unknownOpts draws 1-3 options the server does not know (it must ignore them).
func unknownOpts(r *hlib.Rng) []dns.EDNS0 {
	var os []dns.EDNS0
	n := 1 + r.Intn(3)
	for i := 0; i < n; i++ {
		switch r.Intn(5) {
		case 0:
			os = append(os, &dns.EDNS0_NSID{Code: dns.EDNS0NSID, Nsid: ""})
		case 1:
			os = append(os, &dns.EDNS0_COOKIE{Code: dns.EDNS0COOKIE, Cookie: "0102030405060708"})
		case 2:
			os = append(os, &dns.EDNS0_PADDING{Padding: r.Bytes(r.Intn(40), nil)})
		case 3:
			os = append(os, &dns.EDNS0_LOCAL{Code: uint16(65001 + r.Intn(500)), Data: r.Bytes(r.Intn(20), nil)})
		default:
			os = append(os, &dns.EDNS0_LOCAL{Code: uint16(20 + r.Intn(1000)), Data: r.Bytes(r.Intn(8), nil)})
		}
	}
	return os
}

// query packs one query of the question.  shape: 0 no OPT, 1 bare OPT, 2 OPT with the
// question's client-subnet option, 3 OPT with unknown options, 4 both (in either order);
// shapes 2 and 4 fall back to 1 and 3 when the question has no client-subnet option.
// version is the EDNS version (ignored by shape 0); opcode 0 is QUERY.
func (cq *cacheQuestion) query(r *hlib.Rng, shape, version, opcode int, tag string) (Query, bool) {
	return cq.queryAs(r, cq.Name, shape, version, opcode, tag)
}

// respell is the name of the question with every ASCII letter in upper or lower case at random.
func (cq *cacheQuestion) respell(r *hlib.Rng) Name {
	nn := Name{}
	for _, l := range cq.Name {
		b := append([]byte{}, l...)
		for j := range b {
			if (b[j] >= 'a' && b[j] <= 'z' || b[j] >= 'A' && b[j] <= 'Z') && r.Chance(1, 2) {
				b[j] ^= 32
			}
		}
		nn = append(nn, b)
	}
	return nn
}

// queryMaybeRespelled is query with, num times out of den, another spelling of the name.
func (cq *cacheQuestion) queryMaybeRespelled(r *hlib.Rng, num, den int, shape, version, opcode int, tag string) (Query, bool) {
	if r.Chance(num, den) {
		nm := cq.respell(r)
		if !bytes.Equal(nm.Pack(), cq.Name.Pack()) {
			tag += "+recase"
		}
		return cq.queryAs(r, nm, shape, version, opcode, tag)
	}
	return cq.queryAs(r, cq.Name, shape, version, opcode, tag)
}

// queryAs is query for the given spelling of the question's name.
func (cq *cacheQuestion) queryAs(r *hlib.Rng, name Name, shape, version, opcode int, tag string) (Query, bool) {
	q := QSpec{Name: name, Type: cq.Type, Class: cq.Class, ID: r.Intn(65536), Flags: r.Intn(32), Opcode: opcode}
	if cq.Ecs == nil && (shape == 2 || shape == 4) {
		shape--
	}
	if shape > 0 {
		q.Edns = true
		q.Version = version
		q.Size = []int{0, 512, 1232, 4096, 65535}[r.Intn(5)]
		q.DO = r.Chance(1, 2)
		switch shape {
		case 2:
			q.Opts = []dns.EDNS0{cq.Ecs}
		case 3:
			q.Opts = unknownOpts(r)
		case 4:
			q.Opts = unknownOpts(r)
			at := r.Intn(len(q.Opts) + 1)
			q.Opts = append(q.Opts[:at:at], append([]dns.EDNS0{cq.Ecs}, q.Opts[at:]...)...)
		}
	}
	wire, err := PackQuery(q)
	if err != nil {
		return Query{}, false
	}
	return Query{Wire: wire, Client: cq.Client, Max: cq.Max, Class_: cq.Cls + "/" + tag}, true
}

// genCacheQuestions draws k questions over the generated file: declared names, descendants
// (NXDOMAIN and wildcard answers are cached too), zone apexes, names below delegations, the
// root, and a few of another class (the class is part of the cache key).
func genCacheQuestions(g *Gen, k int) []*cacheQuestion {
	r := g.R
	var res []*cacheQuestion
	seen := map[string]bool{}
	for tries := 0; len(res) < k && tries < 20*k; tries++ {
		cq := &cacheQuestion{Class: 1, Client: Clients[r.Intn(len(Clients))], Max: []int{1, 1, 2, 3, 8}[r.Intn(5)]}
		cq.Type = []int{1, 28, 2, 6, 16, 15, 255, 5, 43, 1, 16, 2, 64, 65}[r.Intn(14)]
		base := Name{}
		if len(g.Names) > 0 {
			base = append(Name{}, g.Names[r.Intn(len(g.Names))]...)
		}
		switch r.Pick([]int{6, 3, 3, 2, 1, 1}) {
		case 0:
			cq.Name, cq.Cls = base, "declared"
		case 1:
			cq.Name, cq.Cls = base.Child(g.label()), "child"
		case 2:
			cq.Name, cq.Cls = base, "declared"
			if len(g.Zones) > 0 {
				cq.Name, cq.Cls = append(Name{}, g.Zones[r.Intn(len(g.Zones))]...), "apex"
				cq.Type = []int{2, 6, 255, 1, 43}[r.Intn(5)]
			}
		case 3:
			cq.Name, cq.Cls = base, "declared"
			for _, l := range g.Lines {
				if l.Kind == "&" && len(l.Recs) > 0 && r.Chance(1, 2) {
					cq.Name, cq.Cls = unpackName(hlib.Unints(l.Recs[0].Owner)).Child(g.label()), "belowns"
				}
			}
		case 4:
			cq.Name, cq.Cls = Name{}, "root"
		default:
			cq.Name, cq.Cls = N(g.label(), "nowhere", "invalid"), "outside"
		}
		if len(cq.Name.Pack()) > 255 {
			continue
		}
		if r.Chance(1, 5) { // mixed case, the same bytes in every query of the question
			nn := Name{}
			for _, l := range cq.Name {
				b := append([]byte{}, l...)
				for j := range b {
					if b[j] >= 'a' && b[j] <= 'z' && r.Chance(1, 2) {
						b[j] -= 32
					}
				}
				nn = append(nn, b)
			}
			cq.Name = nn
			cq.Cls += "+case"
		}
		if r.Chance(1, 8) {
			cq.Class = []int{0, 3, 4, 254, 255}[r.Intn(5)]
			cq.Cls += "+class"
		}
		if r.Chance(2, 3) {
			e := Ecs([]string{"10.0.0.0", "10.1.2.0", "172.16.5.0", "192.0.2.0", "fd00::", "2001:db8::"}[r.Intn(6)], 0, 0)
			if e.Family == 1 {
				e.SourceNetmask = uint8([]int{24, 16, 32}[r.Intn(3)])
			} else {
				e.SourceNetmask = uint8([]int{56, 48, 64}[r.Intn(3)])
			}
			cq.Ecs = e
		}
		key := fmt.Sprintf("%x|%d|%d", cq.Name.Lower().Pack(), cq.Type, cq.Class)
		if seen[key] {
			continue
		}
		seen[key] = true
		res = append(res, cq)
	}
	return res
}

var otherOpcodes = []int{1, 2, 4, 5, 3, 6, 15}

// GenCacheHistories draws the two histories of one data file for handlers with the response
// cache enabled.  Each history is (warm-up, judged queries); all judged queries of the first
// carry EDNS version 0 or no OPT, all judged queries of the second another EDNS version.
//
//	v0:  warm-up = nothing | each question once with a bad EDNS version (the reverse order) |
//	     version 0 then a bad version; judged = per question 4-6 queries in a row: cold, then
//	     on the warm cache with other shapes (OPT or not, client subnet, unknown options),
//	     other ids / flags, and other opcodes
//	bad: warm-up = per question (sometimes a bad-version query first, then) version-0 queries
//	     without OPT / with OPT / with the client-subnet option / with unknown options;
//	     judged = per question the versions 1, 2, 255 and a random one, bare, with the
//	     client-subnet option, with unknown options, with both, some with another opcode;
//	     plus bad-version queries for questions that were never asked (cold)
//
// Half of the queries on a warm entry (and of the version-0 warm-up queries, a third of the
// first judged ones) spell the name in another letter case than the question's base spelling.
func GenCacheHistories(g *Gen, k int) (warmV0, v0, warmBad, bad []Query) {
	r := g.R
	qs := genCacheQuestions(g, k)
	add := func(l *[]Query, q Query, ok bool) {
		if ok {
			*l = append(*l, q)
		}
	}
	badVersion := func() int { return []int{1, 2, 255, 1 + r.Intn(255)}[r.Intn(4)] }
	opcode := func(num, den int) int {
		if r.Chance(num, den) {
			return otherOpcodes[r.Intn(len(otherOpcodes))]
		}
		return 0
	}
	// history 1: judged queries of version 0
	mode := r.Intn(3)
	for _, cq := range qs {
		switch mode {
		case 1:
			q, ok := cq.query(r, 1+r.Intn(4), badVersion(), 0, "badvers-first")
			add(&warmV0, q, ok)
		case 2:
			q, ok := cq.queryMaybeRespelled(r, 1, 2, r.Intn(3), 0, 0, "v0")
			add(&warmV0, q, ok)
			q, ok = cq.query(r, 1+r.Intn(4), badVersion(), 0, "badvers-between")
			add(&warmV0, q, ok)
		}
	}
	for _, cq := range qs {
		n := 4 + r.Intn(3)
		for i := 0; i < n; i++ {
			shape := r.Intn(5)
			tag := "warm"
			switch i {
			case 0:
				shape, tag = r.Intn(2), "first"
			case 1:
				shape, tag = 2, "first-ecs"
			}
			if shape >= 3 {
				tag = "warm-unknown-opts"
			}
			op := 0
			if i >= 2 {
				if op = opcode(1, 3); op != 0 {
					tag += "+opcode"
				}
			}
			// the first query (cold unless the warm-up asked) sometimes, the later ones (warm)
			// half of the time spell the name differently
			num := 1
			if i == 0 {
				num = 0
				if r.Chance(1, 3) {
					num = 2
				}
			}
			q, ok := cq.queryMaybeRespelled(r, num, 2, shape, 0, op, tag)
			add(&v0, q, ok)
		}
	}
	// history 2: judged queries of another version, on the warm cache
	nwarm := len(qs) - 2 // the last two questions stay cold
	if nwarm < 1 {
		nwarm = len(qs)
	}
	for i, cq := range qs {
		if i >= nwarm {
			break
		}
		if r.Chance(1, 3) {
			q, ok := cq.query(r, 1+r.Intn(4), badVersion(), 0, "badvers-first")
			add(&warmBad, q, ok)
		}
		q, ok := cq.queryMaybeRespelled(r, 1, 2, r.Intn(2), 0, 0, "v0")
		add(&warmBad, q, ok)
		if cq.Ecs != nil {
			q, ok = cq.queryMaybeRespelled(r, 1, 2, 2, 0, 0, "v0-ecs")
			add(&warmBad, q, ok)
		}
		if r.Chance(1, 2) {
			q, ok = cq.query(r, 3+r.Intn(2), 0, opcode(1, 4), "v0-unknown-opts")
			add(&warmBad, q, ok)
		}
	}
	for i, cq := range qs {
		tag := "warm"
		if i >= nwarm {
			tag = "cold"
		}
		vs := []int{1, 2, 255, 1 + r.Intn(255)}
		r.Shuffle(len(vs), func(a, b int) { vs[a], vs[b] = vs[b], vs[a] })
		shapes := []int{1, 2, 3, 4}
		r.Shuffle(len(shapes), func(a, b int) { shapes[a], shapes[b] = shapes[b], shapes[a] })
		n := 4
		if i >= nwarm {
			n = 1
		}
		for j := 0; j < n; j++ {
			op := opcode(1, 4)
			t := fmt.Sprintf("%s-v%d-shape%d", tag, vs[j], shapes[j])
			if op != 0 {
				t += "+opcode"
			}
			q, ok := cq.queryMaybeRespelled(r, 1, 2, shapes[j], vs[j], op, t)
			add(&bad, q, ok)
		}
	}
	return
}

// RunWire is the body of the C13 harness command: per database two cases, one with the
// queries of EDNS version 0 / without OPT, one with the queries of another EDNS version
// (handlers without cache, every query on its own); one UDP case; and per cache database two
// history cases on handlers with the response cache enabled (GenCacheHistories).
func RunWire(a *hlib.Args, e *hlib.Emitter, stream uint64) error {
	Setup(a)
	var cs []*FileCase
	var shared [][]*FileCase // the history cases, two per data file, built once per file
	if a.Replay != "" {
		var err error
		if cs, err = ReadCases(a.Replay); err != nil {
			return err
		}
	} else {
		classes := []string{"root", "rootdeleg", "empty", "basic", "hibyte", "located", "odd", "nested"}
		nq := 40
		if a.Tier == "thorough" {
			nq = 60
		}
		for i := 0; i < a.N; i++ {
			r := hlib.NewRng(a.Seed, stream+uint64(i))
			class := classes[i%len(classes)]
			g := Generate(r, class, 1700000000+int64(r.Intn(1000000)))
			lines := g.Lines
			if lines == nil {
				lines = []Line{}
			}
			cs = append(cs, &FileCase{Class: class, Mtime: g.Mtime, Lines: lines, Queries: GenWireQueries(g, nq, false)})
			cs = append(cs, &FileCase{Class: class + "+badvers", Mtime: g.Mtime, Lines: lines, Queries: GenWireQueries(g, 6, true)})
		}
		// the size clause: replies over UDP against a database with large record sets
		nu := 1
		if a.Tier == "thorough" {
			nu = 12
		}
		for i := 0; i < nu; i++ {
			r := hlib.NewRng(a.Seed, stream+5000+uint64(i))
			g := Generate(r, "udp", 1700000000+int64(r.Intn(1000000)))
			cs = append(cs, &FileCase{Class: "udp", Mtime: g.Mtime, Lines: g.Lines, Queries: GenUdpQueries(g, 36)})
		}
		// histories: handlers with the response cache enabled, queries asked one after the other
		// (per database one case judging EDNS version 0 / no OPT, one judging other versions)
		cacheClasses := []string{"located", "basic", "root", "nested", "rootdeleg", "hibyte", "odd"}
		nc := 3
		if a.N < 6 {
			nc = (a.N + 1) / 2
		}
		if a.Tier == "thorough" {
			nc = 3 + a.N/6
		}
		for i := 0; i < nc; i++ {
			r := hlib.NewRng(a.Seed, stream+9000+uint64(i))
			class := cacheClasses[i%len(cacheClasses)]
			g := Generate(r, class, 1700000000+int64(r.Intn(1000000)))
			lines := g.Lines
			if lines == nil {
				lines = []Line{}
			}
			warmV0, v0, warmBad, bad := GenCacheHistories(g, 6)
			lru := 1024
			if i%4 == 3 {
				lru = 2 // evictions: queries of one question come in a row, so they still hit
			}
			shared = append(shared, []*FileCase{
				{Class: class + "+cache", Mtime: g.Mtime, Lines: lines, Cache: lru, Warmup: warmV0, Queries: v0},
				{Class: class + "+cache+badvers", Mtime: g.Mtime, Lines: lines, Cache: 1024, Warmup: warmBad, Queries: bad}})
		}
	}
	// one directory per case, as before, then one per pair of history cases
	var groups [][]*FileCase
	for _, c := range cs {
		groups = append(groups, []*FileCase{c})
	}
	groups = append(groups, shared...)
	if err := BuildGroups(groups, a.Scratch, 12); err != nil {
		return err
	}
	for _, g := range groups {
		for _, c := range g {
			e.Emit(c)
		}
	}
	return nil
}
