package corelib

import (
	"bytes"
	"encoding/binary"
	"fmt"
	"os"
	"path/filepath"
	"sort"
	"time"

	rocksdb "github.com/facebookincubator/dns/dnsrocks/cgo-rocksdb"
	"github.com/facebookincubator/dns/dnsrocks/dnsdata/cdb"
	"github.com/facebookincubator/dns/dnsrocks/dnsdata/rdb"

	"verifharness/hlib"
)

// KV is one key of a dump with its rows (CDB: values in file order; RocksDB: the
// chunks of the stored multi-value in stored order).
type KV struct {
	K    []int   `json:"k"`
	Rows [][]int `json:"rows"`
}

// Built holds the three compiled databases of one data file.
type Built struct {
	Dir    string
	CDB    string
	RDB1   string
	RDB2   string
	Err    string
	DumpV1 []KV // from the CDB file
	DumpR1 []KV // from RocksDB with v1 keys
	DumpV2 []KV // from RocksDB with v2 keys
}

// SmallBatchEvery > 0 makes every SmallBatchEvery-th file compile its RocksDB databases in
// single-record batches with eight in flight (slow: seconds per file); set by the C02 command.
var SmallBatchEvery = 0

// Compile writes the data file, sets its mtime (the default SOA serial) and runs the real compilers.
func Compile(scratch string, idx int, text []byte, mtime int64) *Built {
	b := &Built{Dir: filepath.Join(scratch, fmt.Sprintf("db%d", idx))}
	os.RemoveAll(b.Dir)
	if err := os.MkdirAll(b.Dir, 0o755); err != nil {
		b.Err = err.Error()
		return b
	}
	in := filepath.Join(b.Dir, "data.in")
	if err := os.WriteFile(in, append([]byte{}, text...), 0o644); err != nil {
		b.Err = err.Error()
		return b
	}
	t := time.Unix(mtime, 0)
	os.Chtimes(in, t, t)
	b.CDB = filepath.Join(b.Dir, "data.cdb")
	b.RDB1 = filepath.Join(b.Dir, "rdb1")
	b.RDB2 = filepath.Join(b.Dir, "rdb2")
	if _, err := cdb.CreateCDB(in, b.CDB, &cdb.CreatorOptions{NumCPU: 1}); err != nil {
		b.Err = "cdb: " + err.Error()
		return b
	}
	for _, v2 := range []bool{false, true} {
		dir := b.RDB1
		if v2 {
			dir = b.RDB2
		}
		os.MkdirAll(dir, 0o755)
		// compiler options vary with the file: the bulk builder, batches of default size, and tiny
		// batches with several in flight (record sets then straddle batch boundaries)
		opts := rdb.CompilationOptions{NumCPU: 1, UseV2KeySyntax: v2, UseBuilder: idx%4 == 0}
		if SmallBatchEvery > 0 && idx%SmallBatchEvery == SmallBatchEvery-1 {
			opts = rdb.CompilationOptions{NumCPU: 4, UseV2KeySyntax: v2, BatchSize: 1, BatchNumParallel: 8}
		}
		if _, err := rdb.CompileToSpecificRDBVersion(in, dir, opts); err != nil {
			b.Err = "rdb: " + err.Error()
			return b
		}
	}
	var err error
	if b.DumpV1, err = DumpCDB(b.CDB); err != nil {
		b.Err = "dump cdb: " + err.Error()
		return b
	}
	if b.DumpR1, err = DumpRDB(b.RDB1); err != nil {
		b.Err = "dump rdb1: " + err.Error()
		return b
	}
	if b.DumpV2, err = DumpRDB(b.RDB2); err != nil {
		b.Err = "dump rdb2: " + err.Error()
		return b
	}
	return b
}

// Remove deletes the compiled databases.
func (b *Built) Remove() { os.RemoveAll(b.Dir) }

// DumpCDB reads the constant database file format directly: a 2048-byte table of
// (position, length) pairs, then records klen(4,LE) dlen(4,LE) key data up to the
// first hash table.
func DumpCDB(path string) ([]KV, error) {
	f, err := os.ReadFile(path)
	if err != nil {
		return nil, err
	}
	if len(f) < 2048 {
		return nil, fmt.Errorf("short cdb file")
	}
	end := uint32(len(f))
	for i := 0; i < 256; i++ {
		p := binary.LittleEndian.Uint32(f[i*8:])
		if p < end {
			end = p
		}
	}
	m := map[string]int{}
	var res []KV
	pos := uint32(2048)
	for pos < end {
		if pos+8 > end {
			return nil, fmt.Errorf("bad record header at %d", pos)
		}
		kl := binary.LittleEndian.Uint32(f[pos:])
		dl := binary.LittleEndian.Uint32(f[pos+4:])
		pos += 8
		if pos+kl+dl > end {
			return nil, fmt.Errorf("record overruns at %d", pos)
		}
		k := f[pos : pos+kl]
		d := f[pos+kl : pos+kl+dl]
		pos += kl + dl
		i, ok := m[string(k)]
		if !ok {
			i = len(res)
			m[string(k)] = i
			res = append(res, KV{K: hlib.Ints(k)})
		}
		res[i].Rows = append(res[i].Rows, hlib.Ints(d))
	}
	sortKV(res)
	return res, nil
}

func sortKV(res []KV) {
	sort.Slice(res, func(i, j int) bool {
		return bytes.Compare(hlib.Unints(res[i].K), hlib.Unints(res[j].K)) < 0
	})
}

// DumpRDB iterates a RocksDB database; every value is a list of len(4,LE) ++ chunk.
func DumpRDB(path string) ([]KV, error) {
	opts := rocksdb.NewOptions()
	db, err := rocksdb.OpenDatabase(path, true, false, opts)
	if err != nil {
		return nil, err
	}
	defer db.CloseDatabase()
	ro := rocksdb.NewDefaultReadOptions()
	it := db.CreateIterator(ro)
	defer it.FreeIterator()
	var res []KV
	for it.SeekToFirst(); it.IsValid(); it.Next() {
		k := append([]byte{}, it.Key()...)
		v := append([]byte{}, it.Value()...)
		kv := KV{K: hlib.Ints(k), Rows: [][]int{}}
		for len(v) > 0 {
			if len(v) < 4 {
				return nil, fmt.Errorf("malformed multi-value under key %v", k)
			}
			n := int(binary.LittleEndian.Uint32(v))
			if len(v) < 4+n {
				return nil, fmt.Errorf("malformed multi-value under key %v", k)
			}
			kv.Rows = append(kv.Rows, hlib.Ints(v[4:4+n]))
			v = v[4+n:]
		}
		res = append(res, kv)
	}
	if err := it.GetError(); err != nil {
		return nil, err
	}
	sortKV(res)
	return res, nil
}

// validName says whether b is exactly one uncompressed wire name.
func validName(b []byte) bool {
	i := 0
	for {
		if i >= len(b) {
			return false
		}
		c := int(b[i])
		if c == 0 {
			return i == len(b)-1 && len(b) <= 255
		}
		if c > 63 {
			return false
		}
		i += 1 + c
	}
}

// OwnerV1 keeps the owner-name keys (loc2 ++ packed name) of a v1-keyed dump.
func OwnerV1(d []KV) []KV {
	var r []KV
	for _, kv := range d {
		k := hlib.Unints(kv.K)
		if len(k) >= 3 && validName(k[2:]) {
			r = append(r, kv)
		}
	}
	return r
}

// SameOrdered compares two dumps key by key, rows in order.
func SameOrdered(a, b []KV) bool {
	if len(a) != len(b) {
		return false
	}
	for i := range a {
		if !eqInts(a[i].K, b[i].K) || len(a[i].Rows) != len(b[i].Rows) {
			return false
		}
		for j := range a[i].Rows {
			if !eqInts(a[i].Rows[j], b[i].Rows[j]) {
				return false
			}
		}
	}
	return true
}

func eqInts(a, b []int) bool {
	if len(a) != len(b) {
		return false
	}
	for i := range a {
		if a[i] != b[i] {
			return false
		}
	}
	return true
}
