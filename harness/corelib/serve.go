package corelib

import (
	"context"
	"fmt"
	"net"
	"sync/atomic"

	"github.com/coredns/coredns/plugin/pkg/dnstest"
	"github.com/miekg/dns"

	"github.com/facebookincubator/dns/dnsrocks/dnsserver"
	"github.com/facebookincubator/dns/dnsrocks/dnsserver/stats"

	"verifharness/hlib"
)

// tcpWriter is a response writer whose remote address is a *net.TCPAddr, so that
// the handler never truncates.
type tcpWriter struct {
	ip  net.IP
	msg *dns.Msg
	n   int
}

func (w *tcpWriter) LocalAddr() net.Addr  { return &net.TCPAddr{IP: net.ParseIP("127.0.0.1"), Port: 53} }
func (w *tcpWriter) RemoteAddr() net.Addr { return &net.TCPAddr{IP: w.ip, Port: 40212} }
func (w *tcpWriter) WriteMsg(m *dns.Msg) error {
	w.msg = m
	w.n++
	return nil
}
func (w *tcpWriter) Write(b []byte) (int, error) { w.n++; return len(b), nil }
func (w *tcpWriter) Close() error                { return nil }
func (w *tcpWriter) TsigStatus() error           { return nil }
func (w *tcpWriter) TsigTimersOnly(bool)         {}
func (w *tcpWriter) Hijack()                     {}

// udpWriter is a response writer whose remote address is a *net.UDPAddr: the handler fits the
// reply into the size the client advertised.
type udpWriter struct {
	tcpWriter
}

func (w *udpWriter) RemoteAddr() net.Addr { return &net.UDPAddr{IP: w.ip, Port: 40212} }

// UdpObs is what one backend wrote for a query received over UDP.
type UdpObs struct {
	Limit   int    `json:"limit"` // max(512, advertised EDNS size); 512 without EDNS
	Written bool   `json:"written"`
	Len     int    `json:"len"` // length of the message packed the way the server packs it
	TC      bool   `json:"tc"`
	NRecs   int    `json:"nrecs"`     // records in answer + authority + additional (without OPT)
	NTcp    int    `json:"nrecs_tcp"` // the same for the reply over TCP (nothing dropped)
	Panic   string `json:"panic"`
	PackErr bool   `json:"packerr"`
}

// RRp is the projection of one resource record.
type RRp struct {
	Owner []int `json:"owner"` // wire form, case as served
	Type  int   `json:"type"`
	Class int   `json:"class"`
	TTL   int64 `json:"ttl"`
	Rdata []int `json:"rdata"` // re-packed without compression
}

// Reply is the projection of a written response.
type Reply struct {
	ID       int   `json:"id"`
	QR       bool  `json:"qr"`
	Question []RRp `json:"question"` // owner/type/class only
	Rcode    int   `json:"rcode"`
	AA       bool  `json:"aa"`
	TC       bool  `json:"tc"`
	An       []RRp `json:"an"`
	Ns       []RRp `json:"ns"`
	Ex       []RRp `json:"ex"` // without OPT
	Opt      bool  `json:"opt"`
	OptCodes []int `json:"optcodes"`
	Ecs      []int `json:"ecs"` // family(2) source scope address, nil if absent
	HasEcs   bool  `json:"has_ecs"`
	PackOK   bool  `json:"packok"` // the response packs and unpacks again
	Writes   int   `json:"writes"`
}

// Obs is what one backend did with one query.
type Obs struct {
	Loc       string `json:"loc"` // "err" | "nil" | "ok"
	LocID     []int  `json:"locid"`
	LocEcs    []int  `json:"locecs"` // ECS option as FindLocation returned it
	HasLocEcs bool   `json:"has_locecs"`
	Panic     string `json:"panic"`
	Reply     *Reply `json:"reply"`
}

// Query is one query with its per-backend observations.
type Query struct {
	Wire   []int  `json:"wire"` // the packed query message (replayed exactly)
	Client string `json:"client"`
	Max    int    `json:"max"`
	// derived from the unpacked message, for the model
	ID      int                `json:"id"`
	Name    []int              `json:"name"`
	Type    int                `json:"type"`
	Class   int                `json:"class"`
	HasOpt  bool               `json:"has_opt"`
	Version int                `json:"version"`
	Class_  string             `json:"qclass"` // generator class of the query
	Obs     map[string]*Obs    `json:"obs"`
	Udp     bool               `json:"udp"` // also ask over UDP and observe the size of what is written
	UdpObs  map[string]*UdpObs `json:"udpobs,omitempty"`
	// per backend: the handler counted a response-cache hit while serving this query
	// (only recorded by handlers opened with OpenCached)
	CacheHit map[string]bool `json:"cache_hit,omitempty"`
	// per backend, for a query served from the cache: the name bytes (as asked) of the query that
	// populated the entry, i.e. of the latest earlier query of the history with the same location,
	// type, class and lower-cased name that was not itself served from the cache
	First map[string][]int `json:"first,omitempty"`
}

// Servers are the three real servers over one data file.
type Servers struct {
	H map[string]*dnsserver.FBDNSDB
	// hits counts, per backend, the DNS_cache.hit increments of a handler opened with
	// OpenCached (nil for handlers without cache)
	hits map[string]*hitStats
	// filled: per backend, cache key (location, type, class, lower-cased name) -> name bytes of
	// the latest query with that key that went past the cache lookup without a hit
	filled map[string]map[string][]int
}

var Backends = []string{"cdb", "rdb1", "rdb2"}

// hitStats is a stats sink that only counts response-cache hits.
type hitStats struct {
	stats.DummyStats
	n int64
}

// IncrementCounter counts DNS_cache.hit and ignores every other key.
func (s *hitStats) IncrementCounter(key string) {
	if key == "DNS_cache.hit" {
		atomic.AddInt64(&s.n, 1)
	}
}

// Open loads the three databases into three handlers (no cache).
func Open(b *Built) (*Servers, error) {
	return openServers(b, dnsserver.CacheConfig{Enabled: false})
}

// OpenCached loads the three databases into three handlers whose response cache is enabled
// (LRU of the given size, no caching of weighted answers): queries asked one after the other
// through the same Servers then form a history.
func OpenCached(b *Built, lruSize int) (*Servers, error) {
	return openServers(b, dnsserver.CacheConfig{Enabled: true, LRUSize: lruSize})
}

func openServers(b *Built, cache dnsserver.CacheConfig) (*Servers, error) {
	s := &Servers{H: map[string]*dnsserver.FBDNSDB{}}
	if cache.Enabled {
		s.hits = map[string]*hitStats{}
		s.filled = map[string]map[string][]int{}
	}
	for _, be := range Backends {
		cfg := dnsserver.DBConfig{Path: b.CDB, Driver: "cdb"}
		switch be {
		case "rdb1":
			cfg = dnsserver.DBConfig{Path: b.RDB1, Driver: "rocksdb"}
		case "rdb2":
			cfg = dnsserver.DBConfig{Path: b.RDB2, Driver: "rocksdb"}
		}
		var st stats.Stats = &stats.DummyStats{}
		if cache.Enabled {
			hs := &hitStats{}
			s.hits[be] = hs
			s.filled[be] = map[string][]int{}
			st = hs
		}
		h, err := dnsserver.NewFBDNSDBBasic(dnsserver.HandlerConfig{}, cfg, cache, &dnsserver.DummyLogger{}, st)
		if err != nil {
			s.Close()
			return nil, err
		}
		if err = h.Load(); err != nil {
			s.Close()
			return nil, fmt.Errorf("%s: %w", be, err)
		}
		s.H[be] = h
	}
	return s, nil
}

// Close releases the databases.
func (s *Servers) Close() {
	for _, h := range s.H {
		func() {
			defer func() { recover() }()
			h.Close()
		}()
	}
}

func packName(s string) []int {
	buf := make([]byte, 300)
	off, err := dns.PackDomainName(s, buf, 0, nil, false)
	if err != nil {
		return []int{}
	}
	return hlib.Ints(buf[:off])
}

func projRR(rr dns.RR) (RRp, bool) {
	h := rr.Header()
	p := RRp{Owner: packName(h.Name), Type: int(h.Rrtype), Class: int(h.Class), TTL: int64(h.Ttl), Rdata: []int{}}
	buf := make([]byte, 70000)
	off, err := dns.PackRR(rr, buf, 0, nil, false)
	if err != nil {
		return p, false
	}
	hl := len(p.Owner) + 10
	if off < hl {
		return p, false
	}
	p.Rdata = hlib.Ints(buf[hl:off])
	return p, true
}

// EcsBytes renders an ECS option as family(2) source scope address.
func EcsBytes(e *dns.EDNS0_SUBNET) []int {
	b := []byte{byte(e.Family >> 8), byte(e.Family), e.SourceNetmask, e.SourceScope}
	b = append(b, []byte(e.Address)...)
	return hlib.Ints(b)
}

func project(m *dns.Msg, writes int) *Reply {
	r := &Reply{ID: int(m.Id), QR: m.Response, Rcode: m.Rcode, AA: m.Authoritative, TC: m.Truncated,
		Question: []RRp{}, An: []RRp{}, Ns: []RRp{}, Ex: []RRp{}, OptCodes: []int{}, Ecs: []int{}, PackOK: true, Writes: writes}
	for _, q := range m.Question {
		r.Question = append(r.Question, RRp{Owner: packName(q.Name), Type: int(q.Qtype), Class: int(q.Qclass), Rdata: []int{}})
	}
	sec := func(in []dns.RR, out *[]RRp) {
		for _, rr := range in {
			if rr == nil {
				r.PackOK = false
				continue
			}
			if o, ok := rr.(*dns.OPT); ok {
				r.Opt = true
				for _, op := range o.Option {
					r.OptCodes = append(r.OptCodes, int(op.Option()))
					if e, ok := op.(*dns.EDNS0_SUBNET); ok && !r.HasEcs {
						r.HasEcs = true
						r.Ecs = EcsBytes(e)
					}
				}
				continue
			}
			p, ok := projRR(rr)
			if !ok {
				r.PackOK = false
			}
			*out = append(*out, p)
		}
	}
	sec(m.Answer, &r.An)
	sec(m.Ns, &r.Ns)
	sec(m.Extra, &r.Ex)
	// the whole message must pack and unpack again with the same header and question
	func() {
		defer func() {
			if e := recover(); e != nil {
				r.PackOK = false
			}
		}()
		c := m.Copy()
		buf, err := c.Pack()
		if err != nil {
			r.PackOK = false
			return
		}
		var back dns.Msg
		if err := back.Unpack(buf); err != nil {
			r.PackOK = false
			return
		}
		if back.Id != m.Id || back.Response != m.Response || back.Rcode != m.Rcode || len(back.Question) != len(m.Question) {
			r.PackOK = false
		}
	}()
	return r
}

// Ask runs one query (given as wire bytes) against the three servers.
func (s *Servers) Ask(q *Query) error {
	wire := hlib.Unints(q.Wire)
	var req dns.Msg
	if err := req.Unpack(append([]byte{}, wire...)); err != nil {
		return fmt.Errorf("query does not unpack: %w", err)
	}
	q.ID = int(req.Id)
	q.Name, q.Type, q.Class = []int{0}, 0, 0
	if len(req.Question) > 0 {
		q.Name = packName(req.Question[0].Name)
		q.Type = int(req.Question[0].Qtype)
		q.Class = int(req.Question[0].Qclass)
	}
	q.HasOpt, q.Version = false, 0
	if o := req.IsEdns0(); o != nil {
		q.HasOpt = true
		q.Version = int(o.Version())
	}
	q.Obs = map[string]*Obs{}
	q.UdpObs = nil
	if q.Udp {
		q.UdpObs = map[string]*UdpObs{}
	}
	q.CacheHit = nil
	if s.hits != nil {
		q.CacheHit = map[string]bool{}
	}
	q.First = nil
	if s.filled != nil {
		q.First = map[string][]int{}
	}
	ip := net.ParseIP(q.Client)
	for _, be := range Backends {
		h := s.H[be]
		o := &Obs{LocID: []int{}, LocEcs: []int{}}
		q.Obs[be] = o
		// the location the real reader computes for this query and client
		func() {
			var m dns.Msg
			m.Unpack(append([]byte{}, wire...))
			rd, err := h.AcquireReader()
			if err != nil {
				o.Loc = "err"
				return
			}
			defer rd.Close()
			name := "."
			if len(m.Question) > 0 {
				name = dns.Fqdn(lowerASCII(m.Question[0].Name))
			}
			packed := make([]byte, 255)
			off, err := dns.PackDomainName(name, packed, 0, nil, false)
			if err != nil {
				o.Loc = "err"
				return
			}
			ecs, loc, err := rd.FindLocation(packed[:off], &m, ip.String())
			switch {
			case err != nil:
				o.Loc = "err"
			case loc == nil:
				o.Loc = "nil"
			default:
				o.Loc = "ok"
				o.LocID = hlib.Ints(loc.LocID[:])
			}
			if ecs != nil {
				o.HasLocEcs = true
				o.LocEcs = EcsBytes(ecs)
			}
		}()
		// the real handler
		func() {
			var m dns.Msg
			m.Unpack(append([]byte{}, wire...))
			w := &tcpWriter{ip: ip}
			rec := dnstest.NewRecorder(w)
			if hs := s.hits[be]; hs != nil {
				before := atomic.LoadInt64(&hs.n)
				defer func() { q.CacheHit[be] = atomic.LoadInt64(&hs.n) > before }()
			}
			defer func() {
				if e := recover(); e != nil {
					o.Panic = fmt.Sprint(e)
					if o.Panic == "" {
						o.Panic = "panic"
					}
				}
			}()
			h.ServeDNSWithRCODE(dnsserver.WithMaxAnswer(context.Background(), q.Max), rec, &m)
			if w.msg != nil {
				o.Reply = project(w.msg, w.n)
			}
		}()
		if fl := s.filled[be]; fl != nil && o.Loc == "ok" {
			key := fmt.Sprintf("%v|%d|%d|%x", o.LocID, q.Type, q.Class, lowerASCII(string(hlib.Unints(q.Name))))
			if q.CacheHit[be] {
				if nm, ok := fl[key]; ok {
					q.First[be] = nm
				}
			} else if !(q.HasOpt && q.Version != 0) {
				fl[key] = append([]int{}, q.Name...)
			}
		}
		if q.Udp {
			u := &UdpObs{Limit: 512}
			q.UdpObs[be] = u
			if o.Reply != nil {
				u.NTcp = len(o.Reply.An) + len(o.Reply.Ns) + len(o.Reply.Ex)
			}
			func() {
				var m dns.Msg
				m.Unpack(append([]byte{}, wire...))
				if opt := m.IsEdns0(); opt != nil && int(opt.UDPSize()) > 512 {
					u.Limit = int(opt.UDPSize())
				}
				w := &udpWriter{tcpWriter{ip: ip}}
				rec := dnstest.NewRecorder(w)
				defer func() {
					if e := recover(); e != nil {
						u.Panic = fmt.Sprint(e)
						if u.Panic == "" {
							u.Panic = "panic"
						}
					}
				}()
				h.ServeDNSWithRCODE(dnsserver.WithMaxAnswer(context.Background(), q.Max), rec, &m)
				if w.msg != nil {
					u.Written = true
					u.TC = w.msg.Truncated
					for _, sec := range [][]dns.RR{w.msg.Answer, w.msg.Ns, w.msg.Extra} {
						for _, rr := range sec {
							if _, isopt := rr.(*dns.OPT); !isopt {
								u.NRecs++
							}
						}
					}
					buf, err := w.msg.Pack() // honours the Compress flag the handler set, as the server's writer does
					if err != nil {
						u.PackErr = true
					} else {
						u.Len = len(buf)
					}
				}
			}()
		}
	}
	return nil
}

func lowerASCII(s string) string {
	b := []byte(s)
	for i, c := range b {
		if c >= 'A' && c <= 'Z' {
			b[i] = c + 32
		}
	}
	return string(b)
}
