package corelib

import (
	"bytes"
	"fmt"
	"strings"

	spooky "github.com/dgryski/go-spooky"

	"verifharness/hlib"
)

// Clients used by every scenario: (address, expected location under map m1).
var Clients = []string{"10.0.0.1", "10.1.0.1", "192.168.0.1", "fd00::1"}

var (
	locA = []byte("ab")
	locB = []byte("cd")
	locF = []byte("ef") // never assigned to a client: "foreign"
	locG = []byte("aa") // foreign as well, and sorting before the clients' locations
)

var safeLabels = []string{"a", "b", "www", "mail", "ab", "abc", "a-b", "a_b", "0", "z9", "x", "Www", "MAIL"}
var unsafeLabels = []string{"a!b", "~", "a b", "A+", "\x01"}

// labels with bytes above 0x7f: an invalid UTF-8 byte, UTF-8 upper- and lower-case letters
var hiLabels = []string{"x\x80", "\xc3\x89", "\xc3\xa9", "\xff\xfe"}

func N(labels ...string) Name {
	n := Name{}
	for _, l := range labels {
		n = append(n, []byte(l))
	}
	return n
}

func (g *Gen) label() string { return safeLabels[g.R.Intn(len(safeLabels))] }

func (g *Gen) someLabel() string {
	if g.HiByte && g.R.Chance(1, 3) || g.R.Chance(1, 25) {
		return hiLabels[g.R.Intn(len(hiLabels))]
	}
	if g.R.Chance(1, 6) {
		return unsafeLabels[g.R.Intn(len(unsafeLabels))]
	}
	if g.R.Chance(1, 12) {
		return strings.Repeat("k", 63)
	}
	return g.label()
}

// loc picks the tag of a record: mostly untagged, sometimes a client location or the foreign one.
func (g *Gen) loc(located bool) []byte {
	if !located {
		return nil
	}
	switch g.R.Pick([]int{10, 4, 4, 1, 1}) {
	case 1:
		return locA
	case 2:
		return locB
	case 3:
		return locF
	case 4:
		return locG
	}
	return nil
}

// Opts steer one generated file.
type Opts struct {
	Located  bool // located records and a resolver map
	Nested   bool // child zones (delegated and authoritative)
	Prefixes bool // sibling names that are byte prefixes of each other, 1- and 63-byte labels
	Long     bool // names of 128 bytes and more
	Root     int  // 0 none, 1 root zone, 2 root delegation (NS only)
	Odd      bool // shapes outside the well-formed guard
	Budget   int  // approximate number of lines
	MixedRd  bool // mixed-case names inside rdata (NS / MX targets)
}

// apex declares SOA + NS of a zone (Z and & lines, or a "." line).
func (g *Gen) apex(z Name, o Opts) {
	g.Zones = append(g.Zones, z)
	lo := []byte(nil)
	if g.R.Chance(1, 3) {
		g.Dot(z, "a", g.maybeIP(), lo)
	} else {
		g.SOA(z, lo)
		g.NS(z, z.Child("ns1"), "", g.maybeIP(), lo)
	}
	if g.R.Chance(1, 2) {
		// second name server, sometimes out of zone, sometimes the short form
		switch g.R.Intn(3) {
		case 0:
			g.NS(z, N("ns", "other", "test"), "", "", lo)
		case 1:
			g.NS(z, nil, "b", g.randIP(), lo)
		default:
			g.NS(z, z.Child("ns2"), "", g.randIP(), lo)
		}
	}
	if o.Located && g.R.Chance(2, 3) {
		// the zone cut as seen from a location (split horizon): next to the untagged SOA and NS, a
		// located NS only, a located SOA only, or both - mostly for a location clients are mapped
		// to.  The located SOA differs from the untagged one (serial, sometimes the timers), the
		// located NS has its own target and glue.
		l := g.loc(true)
		if l == nil || g.R.Chance(1, 2) {
			l = [][]byte{locA, locB}[g.R.Intn(2)]
		}
		shape := g.R.Pick([]int{3, 2, 2, 2})
		if shape == 3 {
			// the located apex written as one "." line (SOA + NS + glue, all tagged)
			g.Dot(z, "x"+fmt.Sprintf("%x", l), g.maybeIP(), l)
		} else {
			if shape != 1 {
				g.NS(z, z.Child("ns-"+fmt.Sprintf("%x", l)), "", g.maybeIP(), l)
			}
			if shape != 0 {
				g.SOA(z, l)
			}
		}
	}
}

func (g *Gen) maybeIP() string {
	if g.R.Chance(2, 3) {
		return g.randIP()
	}
	return ""
}

// records puts a few records of assorted types at name n.
func (g *Gen) records(n Name, o Opts, k int) {
	for i := 0; i < k; i++ {
		lo := g.loc(o.Located)
		switch g.R.Pick([]int{6, 2, 2, 2, 2, 1, 1, 1, 1, 2}) {
		case 9:
			// service bindings: HTTPS (its owner's addresses go to the additional section) and SVCB
			t := n.Child("svc")
			if g.R.Chance(1, 3) {
				t = Name{}
			}
			sn := n
			if g.R.Chance(1, 2) {
				sn = n.Child("_dns")
			}
			g.SVCB(sn, g.R.Chance(1, 2), false, t, lo)
			if g.R.Chance(1, 2) {
				g.Addr(sn, false, g.randIP(), g.loc(o.Located), 1)
			}
		case 0:
			w := int64(1)
			if g.R.Chance(1, 4) {
				w = int64([]int{0, 2, 5, 100}[g.R.Intn(4)])
			}
			g.Addr(n, false, g.randIP(), lo, w)
			if g.R.Chance(1, 3) {
				g.Addr(n, false, g.randIP(), lo, 1)
			}
		case 1:
			t := n.Child("mx")
			if o.MixedRd && g.R.Chance(1, 2) {
				t = N("MX", "Example", "test")
			}
			if g.R.Chance(1, 3) {
				g.MX(n, nil, "m", g.maybeIP(), lo)
			} else {
				g.MX(n, t, "", g.maybeIP(), lo)
			}
		case 2:
			g.TXT(n, false, g.R.Bytes(1+g.R.Intn(20), []byte("abc xyz.019\"\\:,=\x00\xff")), lo)
		case 3:
			g.CNAME(n.Child("alias"+fmt.Sprint(i)), false, n, lo)
		case 4:
			g.Generic(n, []int{65280, 65281, 4000, 99 + 10000}[g.R.Intn(4)], g.R.Bytes(1+g.R.Intn(8), nil), lo)
		case 5:
			g.SRV(n.Child("_tcp").Child("_svc"), n.Child("srv"), "", g.maybeIP(), lo)
		case 6:
			g.PTR(n, N("host", "example", "test"), lo)
		case 7:
			g.PAddr(n, 192, 0, 2, 1+g.R.Intn(200), lo)
		case 8:
			g.TXT(n, false, bytes.Repeat([]byte("t"), 120+g.R.Intn(20)), lo)
		}
	}
}

func (g *Gen) wildcards(z Name, o Opts) {
	at := z
	if g.R.Chance(1, 2) {
		at = z.Child(g.label())
	}
	lo := g.loc(o.Located)
	switch g.R.Intn(3) {
	case 0:
		g.Addr(at, true, g.randIP(), lo, 1)
	case 1:
		g.TXT(at, true, []byte("wild"), lo)
	default:
		g.CNAME(at, true, N("target", "example", "test"), lo)
	}
	if g.R.Chance(1, 3) {
		// a wildcard next to a label that is not wild-safe, and a name below the wildcard with own records
		g.Addr(at.Child(unsafeLabels[g.R.Intn(len(unsafeLabels))]), false, g.randIP(), nil, 1)
		g.Addr(at.Child("own"), false, g.randIP(), nil, 1)
	}
}

// collidingNames finds two names hNNNNN.<z> whose v1 record keys (location 0,0 + packed name)
// have the same 32-bit CDB hash (the writer's and reader's hash of keys below 96 bytes): both
// sit in one probe sequence with equal stored hashes, so the reader must compare the keys.
// A deterministic birthday search, about 10^5 hashes.
func collidingNames(z Name) (Name, Name, bool) {
	seen := map[uint32]int{}
	for i := 0; i < 400000; i++ {
		n := z.Child(fmt.Sprintf("h%d", i))
		h := spooky.Hash32(append([]byte{0, 0}, n.Pack()...))
		if j, ok := seen[h]; ok {
			return z.Child(fmt.Sprintf("h%d", j)), n, true
		}
		seen[h] = i
	}
	return nil, nil, false
}

// zone fills one authoritative zone.
func (g *Gen) zone(z Name, o Opts, depth int) {
	g.apex(z, o)
	if depth == 0 && len(z.Pack()) < 60 && g.R.Chance(1, 4) {
		if a, b, ok := collidingNames(z); ok {
			g.Addr(a, false, g.randIP(), nil, 1)
			g.TXT(b, false, []byte("same key hash as "+string(a[0])), nil)
			if g.R.Chance(1, 2) {
				g.Addr(b, false, g.randIP(), g.loc(o.Located), 1)
			}
		}
	}
	n := 1 + g.R.Intn(3)
	for i := 0; i < n; i++ {
		name := z.Child(g.someLabel())
		if g.R.Chance(1, 3) {
			name = name.Child(g.someLabel())
		}
		g.records(name, o, 1+g.R.Intn(2))
	}
	if g.R.Chance(1, 2) {
		g.records(z, o, 1)
	}
	if g.R.Chance(2, 3) {
		g.wildcards(z, o)
	}
	if o.Prefixes {
		for _, l := range []string{"p", "pq", "pqr", "p-", strings.Repeat("p", 63), strings.Repeat("p", 62)} {
			if g.R.Chance(2, 3) {
				g.Addr(z.Child(l), false, g.randIP(), g.loc(o.Located), 1)
			}
		}
		g.Addr(z.Child("q").Child("p"), false, g.randIP(), nil, 1)
	}
	if o.Long {
		// two long names: one whose key (2 + packed name) is 96..191 bytes long, one of 192 bytes and more
		for _, target := range []int{100 + g.R.Intn(80), 192 + g.R.Intn(40)} {
			long := z
			for len(long.Pack())+12 < target {
				n := target - len(long.Pack()) - 2
				if n > 50 {
					n = 10 + g.R.Intn(40)
				}
				long = long.Child(strings.Repeat(string(rune('a'+g.R.Intn(3))), n))
			}
			if len(long.Pack()) <= 250 {
				g.records(long, o, 2)
				if g.R.Chance(1, 2) && len(long) > 3 {
					g.Addr(long[2:], true, g.randIP(), g.loc(o.Located), 1)
				}
			}
		}
	}
	if o.Nested && depth < 2 {
		// a delegated child: NS only, with or without glue (in-zone target), sometimes located NS
		d := z.Child("deleg")
		withGlue := g.R.Chance(1, 2) || o.MixedRd || g.HiByte
		ip := ""
		if withGlue {
			ip = g.randIP()
		}
		tgt := d.Child("ns")
		if o.MixedRd {
			// the target written with upper-case letters: its glue is stored under the lower-cased name
			tgt = d.Child("NS")
		}
		if g.HiByte {
			// a target with bytes above 0x7f (invalid UTF-8, a UTF-8 upper-case letter) and ASCII upper case
			tgt = d.Child([]string{"ns\x80", "N\xc3\x89", "\xff\xfe\xfdS"}[g.R.Intn(3)])
		}
		g.NS(d, tgt, "", ip, nil)
		if g.R.Chance(1, 2) {
			g.NS(d, N("ns", "elsewhere", "test"), "", "", nil)
		}
		if o.Located {
			l := g.loc(true)
			if l != nil {
				g.NS(d, d.Child("ns-"+string(l)), "", g.maybeIP(), l)
			}
			if g.R.Chance(1, 2) {
				// glue that differs per location
				g.Addr(d.Child("ns"), false, g.randIP(), g.loc(true), 1)
			}
		}
		if g.R.Chance(1, 3) {
			// data below the delegation (occluded)
			g.Addr(d.Child("below"), false, g.randIP(), nil, 1)
		}
		// an authoritative child zone
		if g.R.Chance(2, 3) {
			c := z.Child("child")
			g.zone(c, o, depth+1)
			// the parent's delegation records for it
			if g.R.Chance(1, 2) {
				g.Addr(z, true, g.randIP(), nil, 1) // wildcard in the parent above the child zone
			}
		}
	}
}

// Generate builds a data file of the given class.
// locSets: the location identifiers of one generated file (client A, client B, two foreign ones).
// Identifiers are two arbitrary bytes: besides plain lower-case ones, foreign identifiers that
// differ from a client's only by ASCII case, and binary ones whose second byte is a letter.
var locSets = [][4]string{
	{"ab", "cd", "ef", "aa"},
	{"ab", "cd", "aB", "Ab"},
	{"\x00a", "\x00b", "\x00A", "\x00B"},
	{"AB", "Cd", "ab", "cd"},
	{"\x01Z", "z\x01", "\x01z", "Z\x01"},
}

func pickLocs(r *hlib.Rng) {
	s := locSets[r.Pick([]int{5, 2, 2, 1, 1})]
	locA, locB, locF, locG = []byte(s[0]), []byte(s[1]), []byte(s[2]), []byte(s[3])
}

func Generate(r *hlib.Rng, class string, mtime int64) *Gen {
	g := &Gen{R: r, Mtime: mtime, Types: map[int]bool{}}
	pickLocs(r)
	o := Opts{}
	switch class {
	case "empty":
		if r.Chance(1, 2) {
			g.add("#", "# nothing")
		}
		return g
	case "basic":
	case "located":
		o.Located = true
	case "nested":
		o.Nested = true
		o.Located = r.Chance(1, 2)
	case "prefix":
		o.Prefixes = true
		o.Located = r.Chance(1, 2)
	case "long":
		o.Long = true
		o.Located = r.Chance(1, 3)
	case "root":
		o.Root = 1
		o.Located = r.Chance(1, 3)
	case "rootdeleg":
		o.Root = 2
	case "mixedrd":
		o.MixedRd = true
		o.Nested = true
	case "hibyte":
		g.HiByte = true
		o.Nested = true
	case "udp":
		// replies of every size around the usual limits: TXT sets of growing size, a zone and a
		// delegation with many name servers and glue
		z := N("example", "org")
		g.Zones = append(g.Zones, z)
		g.SOA(z, nil)
		for i := 0; i < 14; i++ {
			g.NS(z, z.Child(fmt.Sprintf("ns%d", i)), "", fmt.Sprintf("192.0.2.%d", 10+i), nil)
			if r.Chance(1, 2) {
				g.Addr(z.Child(fmt.Sprintf("ns%d", i)), false, fmt.Sprintf("2001:db8::%x", 10+i), nil, 1)
			}
		}
		d := z.Child("lotofns")
		for i := 0; i < 16; i++ {
			g.NS(d, d.Child(fmt.Sprintf("n%d", i)), "", fmt.Sprintf("198.51.100.%d", 1+i), nil)
			g.Addr(d.Child(fmt.Sprintf("n%d", i)), false, fmt.Sprintf("2001:db8:1::%x", 1+i), nil, 1)
		}
		for k := 1; k <= 14; k++ {
			nm := z.Child(fmt.Sprintf("t%d", k))
			for j := 0; j < k+r.Intn(3); j++ {
				g.TXT(nm, false, r.Bytes(20+r.Intn(60), []byte("abcdefghijklmnopqrstuvwxyz0123456789")), nil)
			}
		}
		g.TXT(z.Child("huge"), false, bytes.Repeat([]byte("x"), 300), nil)
		for j := 0; j < 24; j++ { // a record set beyond 1232 bytes
			g.TXT(z.Child("t20"), false, r.Bytes(50+r.Intn(30), []byte("abcdefghijklmnopqrstuvwxyz")), nil)
		}
		for j := 0; j < 12; j++ {
			g.MX(z.Child("mail"), z.Child(fmt.Sprintf("mx%d", j)), "", fmt.Sprintf("203.0.113.%d", 1+j), nil)
		}
		return g
	case "odd":
		o.Odd = true
		o.Located = r.Chance(1, 2)
		o.Nested = r.Chance(1, 2)
	case "c02":
		o.Located = true
		o.Nested = true
		o.Prefixes = r.Chance(1, 2)
		o.Long = r.Chance(1, 3)
	}
	if o.Located {
		g.Locs = [][]byte{locA, locB}
	}
	switch o.Root {
	case 1:
		g.zone(Name{}, o, 1)
		g.records(Name{}, o, 2)
		if r.Chance(1, 2) {
			g.zone(N("example", "test"), o, 1)
		}
	case 2:
		ip := ""
		if r.Chance(1, 2) {
			ip = g.randIP()
		}
		g.NS(Name{}, N("a", "root-servers", "test"), "", ip, nil)
		if r.Chance(1, 2) {
			g.zone(N("example", "test"), o, 1)
		}
	default:
		g.zone(N("example", "com"), o, 0)
		if r.Chance(1, 2) {
			g.zone(N("test"), o, 1)
		}
		if r.Chance(1, 3) {
			// records outside every zone
			g.Addr(N("www", "outside", "org"), false, g.randIP(), nil, 1)
		}
	}
	if o.Odd {
		z := N("odd", "test")
		switch r.Intn(5) {
		case 0: // SOA without NS
			g.SOA(z, nil)
			g.Addr(z.Child("www"), false, g.randIP(), nil, 1)
		case 1: // SOA below an NS-only name
			g.NS(z, z.Child("ns"), "", g.randIP(), nil)
			g.SOA(z.Child("sub"), nil)
			g.Addr(z.Child("sub").Child("www"), false, g.randIP(), nil, 1)
		case 2: // CNAME and other data, duplicate SOA
			g.zone(z, o, 1)
			g.CNAME(z.Child("both"), false, N("t", "test"), nil)
			g.Addr(z.Child("both"), false, g.randIP(), nil, 1)
			g.SOA(z, nil)
		case 3: // a literal "*" label on a type that has no wildcard form, wildcard at the root
			g.zone(z, o, 1)
			g.PTR(z.Child("*"), N("t", "test"), nil)
			g.Addr(Name{}, true, g.randIP(), nil, 1)
		default: // located SOA only
			g.SOA(z, locA)
			g.NS(z, z.Child("ns"), "", "", locA)
			g.Addr(z.Child("www"), false, g.randIP(), nil, 1)
		}
	}
	if o.Located {
		hasRootZone := false
		for _, z := range g.Zones {
			if len(z) == 0 {
				hasRootZone = true // its own map lines already use the keys "." and "*."
			}
		}
		rootMap := r.Chance(1, 3) && !hasRootZone
		emptyM, empty8 := false, false
		for _, z := range g.Zones {
			if r.Chance(3, 4) && !(rootMap && r.Chance(3, 4)) {
				if r.Chance(1, 5) {
					// a map without any subnet: it sorts right after m9 / m1, whose range points must not leak
					g.Map("M", z, "n0", true)
					emptyM = true
				} else {
					g.Map("M", z, "m1", true)
				}
			}
		}
		if rootMap {
			// a catch-all: the wildcard map of the root is the last candidate of the label-by-label
			// search and applies to every name without a more specific map
			g.add("M", "M"+wildText(Name{}, true)+":m1")
		}
		g.Subnet(locA, "10.0.0.0/8", "m1")
		g.Subnet(locB, "10.1.0.0/16", "m1")
		if r.Chance(1, 2) {
			g.Subnet(locB, "fd00::/16", "m1")
		}
		if emptyM && r.Chance(2, 3) {
			// the map sorting right before the empty one ends with a range point that carries a location
			g.Subnet([][]byte{locA, locB}[r.Intn(2)], []string{"::/0", "ff00::/8", "ffff:ffff::/32"}[r.Intn(3)], "m1")
		}
		if r.Chance(1, 2) {
			// a client-subnet map for some of the zones: names with an M map and no 8 map, both, neither
			for _, z := range g.Zones {
				if r.Chance(1, 2) {
					if r.Chance(1, 5) {
						g.Map("8", z, "f0", true) // no subnets; sorts right after e9 / e1
						empty8 = true
					} else {
						g.Map("8", z, "e1", true)
					}
				}
			}
			if r.Chance(1, 4) && !hasRootZone {
				g.add("8", "8"+wildText(Name{}, true)+":e1")
			}
			g.Subnet(locA, "10.0.0.0/8", "e1")
			g.Subnet(locB, "172.16.0.0/12", "e1")
			if empty8 && r.Chance(2, 3) {
				g.Subnet([][]byte{locA, locB}[r.Intn(2)], []string{"::/0", "ff00::/8", "ffff:ffff::/32"}[r.Intn(3)], "e1")
			}
		}
	}
	// shuffle the lines: the compiled database must not depend on the order
	if r.Chance(1, 2) {
		r.Shuffle(len(g.Lines), func(i, j int) { g.Lines[i], g.Lines[j] = g.Lines[j], g.Lines[i] })
	}
	return g
}
