package corelib

import (
	"encoding/json"
	"fmt"
	"net"
	"os"
	"strings"

	"github.com/miekg/dns"

	"verifharness/hlib"
)

// FileCase is one data file with its dumps, declared records and observed queries.
type FileCase struct {
	Class      string  `json:"class"`
	Mtime      int64   `json:"mtime"`
	Lines      []Line  `json:"lines"`
	CompileErr string  `json:"compile_err"`
	DumpV1     []KV    `json:"dump_v1"` // CDB, owner-name keys only
	DumpR1     []KV    `json:"dump_r1"` // RocksDB v1 owner-name keys; empty when identical to dump_v1 (rows in order)
	R1Same     bool    `json:"r1_same"`
	DumpV2     []KV    `json:"dump_v2"` // RocksDB v2, every key (rows only under "\000o" keys)
	Queries    []Query `json:"queries"`
	// Cache > 0: the handlers run with the response cache enabled (LRU of this size) and the
	// queries of Warmup, then those of Queries, are asked one after the other through the
	// same handlers (a history).  Only Queries are judged; Warmup keeps its observations for
	// the record.  Both fields are absent from the cases of C01 / C02 / C04.
	Cache  int     `json:"cache,omitempty"`
	Warmup []Query `json:"warmup,omitempty"`
}

// Build compiles the lines of c, dumps the databases and runs the queries (wire, client, max
// of each query are inputs; everything else is recomputed).
func (c *FileCase) Build(scratch string, idx int) error {
	return BuildShared([]*FileCase{c}, scratch, idx)
}

// BuildShared builds cases that hold the same data file (lines, mtime): the file is compiled
// and dumped once, every case then runs its queries through handlers of its own.
func BuildShared(cs []*FileCase, scratch string, idx int) error {
	if len(cs) == 0 {
		return nil
	}
	b := Compile(scratch, idx, FileText(cs[0].Lines), cs[0].Mtime)
	defer b.Remove()
	for _, c := range cs {
		if err := c.runOn(b); err != nil {
			return err
		}
	}
	return nil
}

// runOn fills in the dumps of the compiled databases and runs the queries of c.
func (c *FileCase) runOn(b *Built) error {
	c.DumpV1, c.DumpR1, c.DumpV2 = []KV{}, []KV{}, []KV{}
	c.CompileErr = b.Err
	if b.Err != "" {
		for i := range c.Queries {
			c.Queries[i].Obs = map[string]*Obs{}
		}
		for i := range c.Warmup {
			c.Warmup[i].Obs = map[string]*Obs{}
		}
		return nil
	}
	c.DumpV1 = OwnerV1(b.DumpV1)
	r1 := OwnerV1(b.DumpR1)
	c.R1Same = SameOrdered(c.DumpV1, r1)
	if !c.R1Same {
		c.DumpR1 = r1
	}
	for _, kv := range b.DumpV2 {
		k := hlib.Unints(kv.K)
		if !(len(k) >= 2 && k[0] == 0 && k[1] == 'o') {
			kv.Rows = [][]int{}
		}
		c.DumpV2 = append(c.DumpV2, kv)
	}
	if c.DumpV1 == nil {
		c.DumpV1 = []KV{}
	}
	var s *Servers
	var err error
	if c.Cache > 0 {
		s, err = OpenCached(b, c.Cache)
	} else {
		s, err = Open(b)
	}
	if err != nil {
		return err
	}
	defer s.Close()
	if c.Cache > 0 {
		for i := range c.Warmup {
			if err := s.Ask(&c.Warmup[i]); err != nil {
				return err
			}
		}
	}
	for i := range c.Queries {
		if err := s.Ask(&c.Queries[i]); err != nil {
			return err
		}
	}
	return nil
}

// QSpec describes a query to be packed.
type QSpec struct {
	Name    Name
	Type    int
	Class   int
	ID      int
	Opcode  int
	Flags   int // bit0 RD, bit1 CD, bit2 AD, bit3 AA, bit4 TC
	Edns    bool
	Version int
	DO      bool
	Size    int
	Opts    []dns.EDNS0
	NoQ     bool
}

func nameString(n Name) string {
	if len(n) == 0 {
		return "."
	}
	var sb strings.Builder
	for _, l := range n {
		for _, c := range l {
			switch {
			case c == '.' || c == '\\' || c == '"' || c == '(' || c == ')' || c == ';' || c == '@' || c == '$' || c == ' ':
				sb.WriteByte('\\')
				sb.WriteByte(c)
			case c < ' ' || c > '~':
				fmt.Fprintf(&sb, "\\%03d", c)
			default:
				sb.WriteByte(c)
			}
		}
		sb.WriteByte('.')
	}
	return sb.String()
}

// PackQuery produces a wire-valid query: packed, then checked to unpack again.
func PackQuery(q QSpec) ([]int, error) {
	m := new(dns.Msg)
	m.Id = uint16(q.ID)
	m.Opcode = q.Opcode
	m.RecursionDesired = q.Flags&1 != 0
	m.CheckingDisabled = q.Flags&2 != 0
	m.AuthenticatedData = q.Flags&4 != 0
	m.Authoritative = q.Flags&8 != 0
	m.Truncated = q.Flags&16 != 0
	if !q.NoQ {
		m.Question = []dns.Question{{Name: nameString(q.Name), Qtype: uint16(q.Type), Qclass: uint16(q.Class)}}
	}
	if q.Edns {
		o := new(dns.OPT)
		o.Hdr.Name = "."
		o.Hdr.Rrtype = dns.TypeOPT
		o.SetUDPSize(uint16(q.Size))
		o.SetVersion(uint8(q.Version))
		if q.DO {
			o.SetDo()
		}
		o.Option = q.Opts
		m.Extra = append(m.Extra, o)
	}
	buf, err := m.Pack()
	if err != nil {
		return nil, err
	}
	var back dns.Msg
	if err := back.Unpack(buf); err != nil {
		return nil, err
	}
	return hlib.Ints(buf), nil
}

// Ecs builds a client-subnet option.
func Ecs(ip string, source int, scope int) *dns.EDNS0_SUBNET {
	e := new(dns.EDNS0_SUBNET)
	e.Code = dns.EDNS0SUBNET
	p := net.ParseIP(ip)
	if p4 := p.To4(); p4 != nil {
		e.Family = 1
		e.Address = p4
	} else {
		e.Family = 2
		e.Address = p
	}
	e.SourceNetmask = uint8(source)
	e.SourceScope = uint8(scope)
	return e
}

// DeclaredTypes maps the packed lower-case owner name to the record types declared at it.
func DeclaredTypes(g *Gen) map[string][]int {
	m := map[string][]int{}
	for _, l := range g.Lines {
		for _, rc := range l.Recs {
			k := string(hlib.Unints(rc.Owner))
			m[k] = append(m[k], rc.Type)
		}
	}
	return m
}

// GenQueries draws the query list for a generated file.
func GenQueries(g *Gen, n int) []Query {
	r := g.R
	var qs []Query
	types := []int{1, 28, 2, 6, 15, 16, 5, 12, 33, 255, 43, 65280, 4000, 64, 65}
	declared := DeclaredTypes(g)
	pickName := func() (Name, string) {
		base := Name{}
		if len(g.Names) > 0 {
			base = append(Name{}, g.Names[r.Intn(len(g.Names))]...)
		}
		switch r.Pick([]int{6, 3, 2, 3, 2, 1, 1, 2}) {
		case 0:
			return base, "declared"
		case 1:
			return base.Child(g.label()), "child"
		case 2:
			if len(base) > 0 {
				return base[1:], "parent"
			}
			return base, "declared"
		case 3: // deeper: wildcard-covered candidates
			x := base
			if len(g.Zones) > 0 && r.Chance(1, 2) {
				x = append(Name{}, g.Zones[r.Intn(len(g.Zones))]...)
			}
			k := 1 + r.Intn(3)
			if r.Chance(1, 4) {
				// ten and more labels below the zone or name whose map / wildcard applies
				k = 9 + r.Intn(6)
				for i := 0; i < k && len(x.Pack()) < 230; i++ {
					x = x.Child(string(rune('a' + r.Intn(26))))
				}
				return x, "verydeep"
			}
			for i := 0; i < k; i++ {
				x = x.Child(g.label())
			}
			return x, "deep"
		case 4:
			x := base
			if len(g.Zones) > 0 {
				x = append(Name{}, g.Zones[r.Intn(len(g.Zones))]...)
			}
			if r.Chance(1, 3) {
				x = x.Child(hiLabels[r.Intn(len(hiLabels))])
			} else {
				x = x.Child(unsafeLabels[r.Intn(len(unsafeLabels))])
			}
			if r.Chance(1, 2) {
				x = x.Child(g.label())
			}
			if r.Chance(1, 4) {
				x = x.Child("a.b")
			}
			return x, "unsafe"
		case 5:
			return Name{}, "root"
		case 6:
			return N(g.label(), "nowhere", "invalid"), "outside"
		default:
			if len(g.Zones) > 0 {
				z := append(Name{}, g.Zones[r.Intn(len(g.Zones))]...)
				if r.Chance(1, 2) {
					return z, "apex"
				}
				if len(z) > 0 {
					return append(N("sibling"), z[1:]...), "beside"
				}
				return z, "apex"
			}
			return base, "declared"
		}
	}
	for i := 0; i < n; i++ {
		name, cls := pickName()
		if i >= 3 && i < 7 {
			// the longest declared names (keys of 96 bytes and more) and names below them
			var best Name
			for _, nm := range g.Names {
				if len(nm.Pack()) >= 94 && (best == nil || r.Chance(1, 2)) {
					best = nm
				}
			}
			if best != nil {
				name, cls = append(Name{}, best...), "longname"
				if i%2 == 0 && len(name.Pack()) < 240 {
					name = name.Child(g.label())
				}
			}
		}
		if i < 3 {
			// always a few queries at and below delegation points / NS owners
			for _, l := range g.Lines {
				if l.Kind == "&" && len(l.Recs) > 0 && g.R.Chance(1, 2) {
					name = unpackName(hlib.Unints(l.Recs[0].Owner)).Child(g.label())
					cls = "belowns"
				}
			}
		}
		if len(name.Pack()) > 255 {
			name = name[1:]
		}
		if r.Chance(1, 4) {
			// mixed case
			nn := Name{}
			for _, l := range name {
				b := append([]byte{}, l...)
				for j := range b {
					if b[j] >= 'a' && b[j] <= 'z' && r.Chance(1, 2) {
						b[j] -= 32
					}
				}
				nn = append(nn, b)
			}
			name = nn
			cls += "+case"
		}
		q := QSpec{Name: name, Type: types[r.Intn(len(types))], Class: 1, ID: r.Intn(65536), Flags: r.Intn(2)}
		if r.Chance(1, 2) {
			q.Type = []int{1, 1, 28, 255, 2, 16}[r.Intn(6)]
		}
		if ts := declared[string(name.Lower().Pack())]; len(ts) > 0 && r.Chance(1, 3) {
			// a type that is declared at this very name (every record type gets asked), or ANY
			q.Type = ts[r.Intn(len(ts))]
			if r.Chance(1, 4) {
				q.Type = 255
			}
		}
		if r.Chance(1, 25) {
			q.Class = []int{3, 255, 4}[r.Intn(3)]
		}
		client := Clients[r.Intn(len(Clients))]
		switch r.Pick([]int{6, 3, 2, 0}) {
		case 1:
			q.Edns, q.Size = true, 4096
			q.DO = r.Chance(1, 3)
		case 2:
			q.Edns, q.Size = true, 1232
			q.Opts = []dns.EDNS0{Ecs([]string{"10.0.0.0", "10.1.2.0", "172.16.5.0", "8.8.8.0", "192.0.2.0", "198.51.100.0", "203.0.113.0"}[r.Intn(7)], 24, r.Intn(3)*8)}
		}
		wire, err := PackQuery(q)
		if err != nil {
			continue
		}
		qs = append(qs, Query{Wire: wire, Client: client, Max: 1 + r.Pick([]int{5, 2, 2}), Class_: cls})
	}
	// every service-binding record, and a quarter of the other declared records, is asked for by
	// its own name and type (or ANY) once: each record type is served in every file that has it
	for _, l := range g.Lines {
		for _, rc := range l.Recs {
			if !(rc.Type == 64 || rc.Type == 65 || r.Chance(1, 4)) || rc.Wild {
				continue
			}
			q := QSpec{Name: unpackName(hlib.Unints(rc.Owner)), Type: rc.Type, Class: 1, ID: r.Intn(65536), Flags: r.Intn(2)}
			if r.Chance(1, 4) {
				q.Type = 255
			}
			if r.Chance(1, 3) {
				q.Edns, q.Size = true, 1232
			}
			wire, err := PackQuery(q)
			if err != nil {
				continue
			}
			qs = append(qs, Query{Wire: wire, Client: Clients[r.Intn(len(Clients))], Max: 1 + r.Pick([]int{5, 2, 2}), Class_: "declared-type"})
		}
	}
	return qs
}

// ReadCases loads replay cases (JSON lines of FileCase).
func ReadCases(path string) ([]*FileCase, error) {
	f, err := os.Open(path)
	if err != nil {
		return nil, err
	}
	defer f.Close()
	var res []*FileCase
	dec := json.NewDecoder(f)
	for dec.More() {
		c := new(FileCase)
		if err := dec.Decode(c); err != nil {
			return nil, err
		}
		res = append(res, c)
	}
	return res, nil
}

// BuildAll builds the cases concurrently (each in its own directory); the order of cs is kept.
func BuildAll(cs []*FileCase, scratch string, workers int) error {
	type job struct{ i int }
	ch := make(chan int)
	errs := make([]error, len(cs))
	done := make(chan struct{})
	for w := 0; w < workers; w++ {
		go func() {
			for i := range ch {
				errs[i] = cs[i].Build(scratch, i)
			}
			done <- struct{}{}
		}()
	}
	for i := range cs {
		ch <- i
	}
	close(ch)
	for w := 0; w < workers; w++ {
		<-done
	}
	for _, e := range errs {
		if e != nil {
			return e
		}
	}
	return nil
}

// BuildGroups is BuildAll over groups of cases that share a data file (BuildShared); group i is
// built in directory i.
func BuildGroups(groups [][]*FileCase, scratch string, workers int) error {
	ch := make(chan int)
	errs := make([]error, len(groups))
	done := make(chan struct{})
	for w := 0; w < workers; w++ {
		go func() {
			for i := range ch {
				errs[i] = BuildShared(groups[i], scratch, i)
			}
			done <- struct{}{}
		}()
	}
	for i := range groups {
		ch <- i
	}
	close(ch)
	for w := 0; w < workers; w++ {
		<-done
	}
	for _, e := range errs {
		if e != nil {
			return e
		}
	}
	return nil
}

func unmarshalPair(raw map[string]json.RawMessage, p *PairCase) error {
	b, err := json.Marshal(raw)
	if err != nil {
		return err
	}
	return json.Unmarshal(b, p)
}

func unpackName(b []byte) Name {
	n := Name{}
	for i := 0; i < len(b) && b[i] != 0; {
		l := int(b[i])
		n = append(n, append([]byte{}, b[i+1:i+1+l]...))
		i += 1 + l
	}
	return n
}
