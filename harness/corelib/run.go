package corelib

import (
	"io"
	"log"
	"os"
	"strings"

	"github.com/miekg/dns"

	"verifharness/hlib"
)

// Setup directs temporary files of the libraries into the scratch directory and silences logs.
func Setup(a *hlib.Args) {
	os.Setenv("TMPDIR", a.Scratch)
	log.SetOutput(io.Discard)
}

// RunFiles is the body of the C01 / C02 harness commands: one case per generated data file.
func RunFiles(a *hlib.Args, e *hlib.Emitter, classes []string, stream uint64) error {
	Setup(a)
	var cs []*FileCase
	if a.Replay != "" {
		var err error
		if cs, err = ReadCases(a.Replay); err != nil {
			return err
		}
	} else {
		nq := 24
		if a.Tier == "thorough" {
			nq = 40
		}
		for i := 0; i < a.N; i++ {
			r := hlib.NewRng(a.Seed, stream+uint64(i))
			class := classes[i%len(classes)]
			g := Generate(r, class, 1700000000+int64(r.Intn(1000000)))
			c := &FileCase{Class: class, Mtime: g.Mtime, Lines: g.Lines}
			if c.Lines == nil {
				c.Lines = []Line{}
			}
			c.Queries = GenQueries(g, nq)
			cs = append(cs, c)
		}
	}
	if err := BuildAll(cs, a.Scratch, 12); err != nil {
		return err
	}
	for _, c := range cs {
		e.Emit(c)
	}
	return nil
}

// PairCase is a data file and an edit of it that touches only records of other locations.
type PairCase struct {
	Class  string    `json:"class"`
	Edited [][]int   `json:"edited"` // the locations whose records the edit touches
	Before *FileCase `json:"before"`
	After  *FileCase `json:"after"`
}

func tagged(l Line, locs [][]byte) bool {
	if len(l.Recs) == 0 {
		return false
	}
	for _, r := range l.Recs {
		ok := false
		for _, lo := range locs {
			if len(r.Loc) == 2 && r.Loc[0] == int(lo[0]) && r.Loc[1] == int(lo[1]) {
				ok = true
			}
		}
		if !ok {
			return false
		}
	}
	return true
}

// Subnets and maps that apply to none of the generated names and cover none of the clients'
// addresses: subnets of the unnamed default map and of maps no name selects, M / 8 lines of
// names outside every generated zone.  They do cover the ECS addresses the queries carry.
func unrelatedMaps(g2 *Gen, k int) {
	r := g2.R
	locs := [][]byte{locF, locG, []byte("bb"), locA, locB}
	for i := 0; i < k; i++ {
		lo := locs[r.Intn(len(locs))]
		switch r.Intn(7) {
		case 6:
			// the top of the address space of a map no name selects: its last range point carries a location
			g2.Subnet(lo, []string{"::/0", "ff00::/8", "ffff:ffff::/32"}[r.Intn(3)], []string{"m9", "e9"}[r.Intn(2)])
		case 0:
			g2.SubnetDefault(lo, []string{"192.0.2.0/24", "198.51.100.0/24", "192.0.2.0/25", "203.0.113.0/28", "2001:db8:ffff::/48"}[r.Intn(5)])
		case 1:
			g2.SubnetDefault(lo, []string{"192.0.2.0/24", "198.51.100.0/24"}[r.Intn(2)])
		case 2:
			g2.Subnet(lo, []string{"192.0.2.0/24", "198.51.100.0/24", "10.0.0.0/8", "0.0.0.0/0"}[r.Intn(4)], "zz")
		case 3:
			g2.Map("M", N("unrelated", "invalid"), []string{"m9", "m1", "zz"}[r.Intn(3)], r.Chance(1, 2))
		case 4:
			g2.Map("8", N("other", "invalid"), []string{"e9", "e1", "zz"}[r.Intn(3)], r.Chance(1, 2))
		default:
			g2.Subnet(lo, "192.0.2.0/24", "e9")
		}
	}
}

// ForeignEdit derives the edited file: foreign-location rows added at declared names, zone
// apexes, NS targets and lexicographic neighbours; foreign-tagged lines deleted or replaced.
func ForeignEdit(g *Gen, locs [][]byte) []Line {
	r := g.R
	var out []Line
	for _, l := range g.Lines {
		if tagged(l, locs) && r.Chance(1, 2) {
			continue // deleted (or replaced by what is added below)
		}
		if strings.HasSuffix(l.Kind, "~") && r.Chance(1, 2) {
			continue // an unrelated subnet / map line deleted
		}
		out = append(out, l)
	}
	g2 := &Gen{R: r, Mtime: g.Mtime, Types: map[int]bool{}}
	pick := func() []byte { return locs[r.Intn(len(locs))] }
	names := append([]Name{}, g.Names...)
	n := 3 + r.Intn(6)
	for i := 0; i < n && len(names) > 0; i++ {
		nm := append(Name{}, names[r.Intn(len(names))]...)
		switch r.Intn(7) {
		case 0:
			g2.Addr(nm, false, g2.randIP(), pick(), 1)
		case 1:
			g2.TXT(nm, false, []byte("foreign"), pick())
		case 2: // the zone cut seen from the foreign location
			if len(g.Zones) > 0 {
				z := g.Zones[r.Intn(len(g.Zones))]
				lo := pick()
				if r.Chance(1, 3) {
					g2.Dot(z, "f", g2.maybeIP(), lo) // SOA + NS + glue of the foreign location in one line
				} else {
					g2.NS(z, z.Child("ns-foreign"), "", g2.randIP(), lo)
					if r.Chance(1, 2) {
						g2.SOA(z, lo)
					}
				}
				if r.Chance(1, 2) {
					g2.NS(z.Child("deleg"), z.Child("deleg").Child("ns-foreign"), "", g2.randIP(), lo)
				}
			}
		case 3: // lexicographic neighbours of the name's key
			if len(nm) > 0 {
				l0 := string(nm[0])
				for _, v := range []string{l0 + "0", l0 + "-", l0[:len(l0)-1] + "", l0 + "a"} {
					if v != "" && len(v) <= 63 && r.Chance(1, 2) {
						g2.Addr(append(Name{[]byte(v)}, nm[1:]...), false, g2.randIP(), pick(), 1)
					}
				}
			}
		case 4: // a foreign wildcard above the name
			if len(nm) > 0 {
				g2.Addr(nm[1:], true, g2.randIP(), pick(), 1)
			}
		case 5:
			g2.CNAME(nm, false, N("foreign", "test"), pick())
		default: // foreign delegation in the middle of a zone and foreign glue at an NS target
			g2.NS(nm, nm.Child("ns"), "", g2.randIP(), pick())
		}
	}
	unrelatedMaps(g2, 1+r.Intn(4))
	out = append(out, g2.Lines...)
	g.Names = append(g.Names, g2.Names...)
	return out
}

// RunPairs is the body of the C04 harness command.
func RunPairs(a *hlib.Args, e *hlib.Emitter, stream uint64) error {
	Setup(a)
	var ps []*PairCase
	if a.Replay != "" {
		m, err := hlib.ReadReplay(a.Replay)
		if err != nil {
			return err
		}
		for _, raw := range m {
			p := new(PairCase)
			if err := unmarshalPair(raw, p); err != nil {
				return err
			}
			ps = append(ps, p)
		}
	} else {
		classes := []string{"located", "located", "nested", "located", "c02", "located"}
		for i := 0; i < a.N; i++ {
			r := hlib.NewRng(a.Seed, stream+uint64(i))
			class := classes[i%len(classes)]
			g := Generate(r, class, 1700000000+int64(r.Intn(1000000)))
			locs := [][]byte{locF, locG}
			if r.Chance(1, 4) {
				locs = append(locs, locB)
			}
			// the original already holds some unrelated subnets and maps (so that the edit can delete them)
			if r.Chance(1, 2) {
				gu := &Gen{R: r, Mtime: g.Mtime, Types: map[int]bool{}}
				unrelatedMaps(gu, 1+r.Intn(3))
				for _, l := range gu.Lines {
					l.Kind += "~"
					g.Lines = append(g.Lines, l)
				}
			}
			before := append([]Line{}, g.Lines...)
			after := ForeignEdit(g, locs)
			nq := 12
			if a.Tier == "thorough" {
				nq = 40
			}
			qs := GenQueries(g, nq)
			// queries carrying a client-subnet option whose address lies inside the unrelated subnets
			for k := 0; k < 5 && len(g.Names) > 0; k++ {
				nm := append(Name{}, g.Names[r.Intn(len(g.Names))]...)
				if r.Chance(1, 3) {
					nm = nm.Child(g.label())
				}
				e := Ecs([]string{"192.0.2.7", "198.51.100.9", "192.0.2.200", "203.0.113.3", "2001:db8:ffff::1"}[r.Intn(5)], 0, 0)
				if e.Family == 1 {
					e.SourceNetmask = uint8([]int{24, 32, 25}[r.Intn(3)])
				} else {
					e.SourceNetmask = uint8([]int{48, 64, 128}[r.Intn(3)])
				}
				w, err := PackQuery(QSpec{Name: nm, Type: []int{1, 28, 16, 2, 255}[r.Intn(5)], Class: 1, ID: r.Intn(65536), Edns: true, Size: 1232, Opts: []dns.EDNS0{e}})
				if err == nil {
					qs = append(qs, Query{Wire: w, Client: Clients[r.Intn(len(Clients))], Max: 1, Class_: "ecs-unrelated"})
				}
			}
			p := &PairCase{Class: class,
				Before: &FileCase{Class: class, Mtime: g.Mtime, Lines: before, Queries: qs},
				After:  &FileCase{Class: class, Mtime: g.Mtime, Lines: after, Queries: append([]Query{}, qs...)}}
			for _, lo := range locs {
				p.Edited = append(p.Edited, hlib.Ints(lo))
			}
			ps = append(ps, p)
		}
	}
	var cs []*FileCase
	for _, p := range ps {
		// the queries of the edited file are those of the original one
		p.After.Queries = make([]Query, len(p.Before.Queries))
		for i, q := range p.Before.Queries {
			p.After.Queries[i] = Query{Wire: q.Wire, Client: q.Client, Max: q.Max, Class_: q.Class_}
		}
		cs = append(cs, p.Before, p.After)
	}
	if err := BuildAll(cs, a.Scratch, 12); err != nil {
		return err
	}
	for _, p := range ps {
		e.Emit(p)
	}
	return nil
}

var _ = dns.TypeA
