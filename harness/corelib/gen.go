// Package corelib is the shared harness of properties C01, C02, C04 and C13:
// a generator of structured data files together with the records they declare
// (rdata packed by this package, independently of dnsdata), compilation with the
// real compilers, key/value dumps of the compiled databases, three real servers
// and the projection of their responses.
package corelib

import (
	"bytes"
	"fmt"
	"net"
	"strings"

	"verifharness/hlib"
)

// Rec is one declared resource record in structured form.
type Rec struct {
	Owner  []int `json:"owner"` // packed owner name, lower-cased, without the "*." of a wildcard
	Wild   bool  `json:"wild"`
	Loc    []int `json:"loc"` // empty = untagged, else 2 bytes
	Type   int   `json:"type"`
	TTL    int64 `json:"ttl"`
	Weight int64 `json:"weight"` // A/AAAA only
	Rdata  []int `json:"rdata"`  // uncompressed wire form
}

// Line is one data file line with the records it declares.
type Line struct {
	Text []int  `json:"text"`
	Recs []Rec  `json:"recs"`
	Kind string `json:"kind"`
}

// Name is a domain name as a list of labels (bytes as written, any case).
type Name [][]byte

func (n Name) Pack() []byte {
	var b []byte
	for _, l := range n {
		b = append(b, byte(len(l)))
		b = append(b, l...)
	}
	return append(b, 0)
}

// Lower is DNS (ASCII-only) lower-casing, done here byte by byte - deliberately not
// bytes.ToLower, which is Unicode-aware and rewrites bytes above 0x7f.
func (n Name) Lower() Name {
	r := make(Name, len(n))
	for i, l := range n {
		b := append([]byte{}, l...)
		for j, c := range b {
			if c >= 'A' && c <= 'Z' {
				b[j] = c + 32
			}
		}
		r[i] = b
	}
	return r
}

func (n Name) Child(label string) Name {
	return append(Name{[]byte(label)}, n...)
}

func (n Name) Eq(o Name) bool { return bytes.Equal(n.Lower().Pack(), o.Lower().Pack()) }

func safeByte(c byte) bool {
	return c >= 'a' && c <= 'z' || c >= 'A' && c <= 'Z' || c >= '0' && c <= '9' || c == '-' || c == '_'
}

// Text renders a name for a data file field (octal escapes for everything unusual).
func (n Name) Text() string {
	if len(n) == 0 {
		return "."
	}
	var sb strings.Builder
	for i, l := range n {
		if i > 0 {
			sb.WriteByte('.')
		}
		for _, c := range l {
			if safeByte(c) || c == '*' && len(l) == 1 {
				sb.WriteByte(c)
			} else {
				fmt.Fprintf(&sb, "\\%03o", c)
			}
		}
	}
	return sb.String()
}

// TextDot is Text with a trailing dot when the text has none, for fields that
// tinydns-data expands (x -> x.ns.dom) when they contain no dot.
func (n Name) TextDot() string {
	t := n.Text()
	if !strings.Contains(t, ".") {
		t += "."
	}
	return t
}

func escBytes(b []byte) string {
	var sb strings.Builder
	for _, c := range b {
		if safeByte(c) || c == ' ' || c == '.' {
			sb.WriteByte(c)
		} else {
			fmt.Fprintf(&sb, "\\%03o", c)
		}
	}
	return sb.String()
}

func u16(n int) []byte { return []byte{byte(n >> 8), byte(n)} }
func u32(n int64) []byte {
	return []byte{byte(n >> 24), byte(n >> 16), byte(n >> 8), byte(n)}
}

// Default TTLs of the tinydns-data format (fixed here, not imported from dnsdata).
const (
	ttlDefault = 86400
	ttlSOA     = 2560
	ttlNS      = 259200
)

// Gen builds one data file.
type Gen struct {
	R     *hlib.Rng
	Lines []Line
	Mtime int64
	// what queries are drawn from
	Names  []Name
	Zones  []Name
	Locs   [][]byte
	Types  map[int]bool
	Labels []string
	HiByte bool // owner labels with bytes above 0x7f
}

func (g *Gen) add(kind, text string, recs ...Rec) {
	if recs == nil {
		recs = []Rec{}
	}
	g.Lines = append(g.Lines, Line{Text: hlib.Ints([]byte(text)), Recs: recs, Kind: kind})
	for _, r := range recs {
		g.Types[r.Type] = true
	}
}

func (g *Gen) rec(owner Name, wild bool, loc []byte, typ int, ttl int64, weight int64, rdata []byte) Rec {
	g.Names = append(g.Names, owner)
	l := []int{}
	if len(loc) == 2 && !(loc[0] == 0 && loc[1] == 0) {
		l = hlib.Ints(loc)
	}
	return Rec{Owner: hlib.Ints(owner.Lower().Pack()), Wild: wild, Loc: l, Type: typ, TTL: ttl, Weight: weight, Rdata: hlib.Ints(rdata)}
}

func locText(loc []byte) string {
	if len(loc) == 0 {
		return ""
	}
	return escBytes(loc)
}

// ttlField picks a default (empty field) or explicit TTL.
func (g *Gen) ttlField(def int64) (string, int64) {
	switch g.R.Intn(4) {
	case 0:
		v := int64([]int{0, 1, 60, 300, 3600, 4294967295}[g.R.Intn(6)])
		return fmt.Sprint(v), v
	case 1:
		v := int64(g.R.Intn(100000))
		return fmt.Sprint(v), v
	}
	return "", def
}

func (g *Gen) sep(ip string) string {
	if strings.Contains(ip, ":") || g.R.Chance(1, 4) {
		return ","
	}
	return ":"
}

func join(sep string, f ...string) string {
	// trailing empty fields are dropped (as a hand-written file would)
	for len(f) > 1 && f[len(f)-1] == "" {
		f = f[:len(f)-1]
	}
	return strings.Join(f, sep)
}

func ipBytes(ip string) (int, []byte) {
	p := net.ParseIP(ip)
	if p4 := p.To4(); p4 != nil {
		return 1, []byte(p4)
	}
	return 28, []byte(p.To16())
}

func (g *Gen) randIP() string {
	if g.R.Chance(1, 4) {
		return fmt.Sprintf("2001:db8::%x", 1+g.R.Intn(200))
	}
	return fmt.Sprintf("192.0.2.%d", 1+g.R.Intn(200))
}

// expand is the x -> x.<tag>.dom rule for names without a dot.
func expand(x Name, short string, tag string, dom Name) Name {
	if short != "" {
		return append(Name{[]byte(short), []byte(tag)}, dom...)
	}
	return x
}

// SOA declares a zone apex with a Z line.
func (g *Gen) SOA(dom Name, loc []byte) {
	mname := dom.Child("ns1")
	rname := dom.Child("hostmaster")
	ser := int64(1 + g.R.Intn(1<<30))
	vals := []int64{16384, 2048, 1048576, 2560}
	txt := []string{"", "", "", ""}
	if g.R.Chance(1, 3) {
		for i := range vals {
			vals[i] = int64(g.R.Intn(100000))
			txt[i] = fmt.Sprint(vals[i])
		}
	}
	tt, ttl := g.ttlField(ttlSOA)
	rd := append(mname.Pack(), rname.Pack()...)
	rd = append(rd, u32(ser)...)
	for _, v := range vals {
		rd = append(rd, u32(v)...)
	}
	g.add("Z", "Z"+join(":", dom.Text(), mname.Text(), rname.Text(), fmt.Sprint(ser), txt[0], txt[1], txt[2], txt[3], tt, "", locText(loc)),
		g.rec(dom, false, loc, 6, ttl, 0, rd))
}

// NS declares an NS record with an & line (optionally with glue).
func (g *Gen) NS(dom Name, target Name, short string, ip string, loc []byte) {
	t := expand(target, short, "ns", dom)
	tt, ttl := g.ttlField(ttlNS)
	field := t.TextDot()
	if short != "" {
		field = short
	}
	s := g.sep(ip)
	recs := []Rec{g.rec(dom, false, loc, 2, ttl, 0, t.Pack())}
	if ip != "" {
		ty, b := ipBytes(ip)
		recs = append(recs, g.rec(t, false, loc, ty, ttl, 1, b))
	}
	g.add("&", "&"+join(s, dom.Text(), ip, field, tt, "", locText(loc)), recs...)
}

// Dot declares SOA + NS (+ A) with a "." line; the SOA serial is the file's mtime.
func (g *Gen) Dot(dom Name, short string, ip string, loc []byte) {
	t := expand(nil, short, "ns", dom)
	tt, ttl := g.ttlField(ttlNS)
	soattl := int64(ttlSOA)
	if ttl == 0 {
		soattl = 0
	}
	rname := dom.Child("hostmaster")
	rd := append(t.Pack(), rname.Pack()...)
	rd = append(rd, u32(g.Mtime)...)
	for _, v := range []int64{16384, 2048, 1048576, 2560} {
		rd = append(rd, u32(v)...)
	}
	s := g.sep(ip)
	recs := []Rec{g.rec(dom, false, loc, 6, soattl, 0, rd), g.rec(dom, false, loc, 2, ttl, 0, t.Pack())}
	if ip != "" {
		ty, b := ipBytes(ip)
		recs = append(recs, g.rec(t, false, loc, ty, ttl, 1, b))
	}
	g.add(".", "."+join(s, dom.Text(), ip, short, tt, "", locText(loc)), recs...)
}

// Addr declares an A/AAAA record with a + line.
func (g *Gen) Addr(dom Name, wild bool, ip string, loc []byte, weight int64) {
	tt, ttl := g.ttlField(ttlDefault)
	ty, b := ipBytes(ip)
	w := ""
	if weight != 1 || g.R.Chance(1, 4) {
		w = fmt.Sprint(weight)
	}
	s := g.sep(ip)
	g.add("+", "+"+join(s, wildText(dom, wild), ip, tt, "", locText(loc), w), g.rec(dom, wild, loc, ty, ttl, weight, b))
}

func wildText(dom Name, wild bool) string {
	if wild {
		if len(dom) == 0 {
			return "*."
		}
		return "*." + dom.Text()
	}
	return dom.Text()
}

// PAddr declares A + PTR with an = line (IPv4 only here).
func (g *Gen) PAddr(dom Name, a, b, c, d int, loc []byte) {
	ip := fmt.Sprintf("%d.%d.%d.%d", a, b, c, d)
	tt, ttl := g.ttlField(ttlDefault)
	rev := Name{[]byte(fmt.Sprint(d)), []byte(fmt.Sprint(c)), []byte(fmt.Sprint(b)), []byte(fmt.Sprint(a)), []byte("in-addr"), []byte("arpa")}
	g.add("=", "="+join(":", dom.Text(), ip, tt, "", locText(loc)),
		g.rec(dom, false, loc, 1, ttl, 1, []byte{byte(a), byte(b), byte(c), byte(d)}),
		g.rec(rev, false, loc, 12, ttl, 0, dom.Pack()))
}

// MX declares MX (+ A) with an @ line.
func (g *Gen) MX(dom Name, target Name, short string, ip string, loc []byte) {
	t := expand(target, short, "mx", dom)
	dist := 0
	dt := ""
	if g.R.Chance(1, 2) {
		dist = g.R.Intn(65536)
		dt = fmt.Sprint(dist)
	}
	tt, ttl := g.ttlField(ttlDefault)
	field := t.TextDot()
	if short != "" {
		field = short
	}
	s := g.sep(ip)
	recs := []Rec{g.rec(dom, false, loc, 15, ttl, 0, append(u16(dist), t.Pack()...))}
	if ip != "" {
		ty, b := ipBytes(ip)
		recs = append(recs, g.rec(t, false, loc, ty, ttl, 1, b))
	}
	g.add("@", "@"+join(s, dom.Text(), ip, field, dt, tt, "", locText(loc)), recs...)
}

// SRV declares SRV (+ A) with an S line.
func (g *Gen) SRV(dom Name, target Name, short string, ip string, loc []byte) {
	t := expand(target, short, "srv", dom)
	port, pri, wt := g.R.Intn(65536), g.R.Intn(100), g.R.Intn(100)
	tt, ttl := g.ttlField(ttlDefault)
	field := t.TextDot()
	if short != "" {
		field = short
	}
	s := g.sep(ip)
	rd := append(u16(pri), u16(wt)...)
	rd = append(rd, u16(port)...)
	rd = append(rd, t.Pack()...)
	recs := []Rec{g.rec(dom, false, loc, 33, ttl, 0, rd)}
	if ip != "" {
		ty, b := ipBytes(ip)
		recs = append(recs, g.rec(t, false, loc, ty, ttl, 1, b))
	}
	g.add("S", "S"+join(s, dom.Text(), ip, field, fmt.Sprint(port), fmt.Sprint(pri), fmt.Sprint(wt), tt, "", locText(loc)), recs...)
}

// CNAME declares a CNAME with a C line.
func (g *Gen) CNAME(dom Name, wild bool, target Name, loc []byte) {
	tt, ttl := g.ttlField(ttlDefault)
	g.add("C", "C"+join(":", wildText(dom, wild), target.Text(), tt, "", locText(loc)), g.rec(dom, wild, loc, 5, ttl, 0, target.Pack()))
}

// PTR declares a PTR with a ^ line.
func (g *Gen) PTR(dom Name, target Name, loc []byte) {
	tt, ttl := g.ttlField(ttlDefault)
	g.add("^", "^"+join(":", dom.Text(), target.Text(), tt, "", locText(loc)), g.rec(dom, false, loc, 12, ttl, 0, target.Pack()))
}

// TXT declares a TXT with a ' line (character strings of at most 127 bytes).
func (g *Gen) TXT(dom Name, wild bool, txt []byte, loc []byte) {
	tt, ttl := g.ttlField(ttlDefault)
	var rd []byte
	for i := 0; i < len(txt); i += 127 {
		n := len(txt) - i
		if n > 127 {
			n = 127
		}
		rd = append(rd, byte(n))
		rd = append(rd, txt[i:i+n]...)
	}
	g.add("'", "'"+join(":", wildText(dom, wild), escBytes(txt), tt, "", locText(loc)), g.rec(dom, wild, loc, 16, ttl, 0, rd))
}

// Generic declares a record of an arbitrary (unknown to the DNS library) type with a : line.
func (g *Gen) Generic(dom Name, typ int, rdata []byte, loc []byte) {
	tt, ttl := g.ttlField(ttlDefault)
	g.add(":", ":"+join(":", dom.Text(), fmt.Sprint(typ), escBytes(rdata), tt, "", locText(loc)), g.rec(dom, false, loc, typ, ttl, 0, rdata))
}

// Map declares a resolver map (M) or client-subnet map (8) for a name and its descendants.
func (g *Gen) Map(kind string, dom Name, mapid string, wildToo bool) {
	g.add(kind, kind+dom.Text()+":"+mapid)
	if wildToo {
		g.add(kind, kind+wildText(dom, true)+":"+mapid)
	}
}

// SVCB declares an SVCB (B line, type 64) or HTTPS (H line, type 65) record: priority, target
// name and parameters (RFC 9460); the rdata is priority, the uncompressed target, the parameters in
// key order.  The TTL is always explicit (the line type has no default).
func (g *Gen) SVCB(dom Name, https, wild bool, target Name, loc []byte) {
	typ, pre := 64, "B"
	if https {
		typ, pre = 65, "H"
	}
	ps := []struct {
		text string
		wire []byte
	}{
		{"", nil},
		{"alpn=h2", []byte{0, 1, 0, 3, 2, 'h', '2'}},
		{"port=443;ipv4hint=192.0.2.1", []byte{0, 3, 0, 2, 1, 0xbb, 0, 4, 0, 4, 192, 0, 2, 1}},
		{"ipv4hint=192.0.2.1|192.0.2.2;alpn=h2|h3", []byte{0, 1, 0, 6, 2, 'h', '2', 2, 'h', '3', 0, 4, 0, 8, 192, 0, 2, 1, 192, 0, 2, 2}},
	}[g.R.Intn(4)]
	prio := g.R.Intn(3)
	ttl := int64([]int{1, 60, 300, 3600}[g.R.Intn(4)])
	rd := append(u16(prio), target.Lower().Pack()...)
	rd = append(rd, ps.wire...)
	g.add(pre, pre+join(",", wildText(dom, wild), target.Lower().TextDot(), fmt.Sprint(ttl), locText(loc), fmt.Sprint(prio), ps.text),
		g.rec(dom, wild, loc, typ, ttl, 0, rd))
}

// Subnet declares a % line.
func (g *Gen) Subnet(loc []byte, cidr string, mapid string) {
	g.add("%", "%"+locText(loc)+","+cidr+","+mapid)
}

// SubnetDefault declares a % line without a map id: a subnet of the unnamed default map \000\000.
func (g *Gen) SubnetDefault(loc []byte, cidr string) {
	g.add("%", "%"+locText(loc)+","+cidr)
}

// FileText is the data file.
func FileText(lines []Line) []byte {
	var b []byte
	for _, l := range lines {
		b = append(b, hlib.Unints(l.Text)...)
		b = append(b, '\n')
	}
	return b
}
