module verifharness

go 1.18

require (
	github.com/dgryski/go-spooky v0.0.0-20170606183049-ed3d087f40e2
	github.com/facebookincubator/dns/dnsrocks v0.0.0
	github.com/miekg/dns v1.1.50
	github.com/repustate/go-cdb v0.0.0-20160430174706-6a418fad95e2
)

require (
	github.com/golang/glog v1.0.0 // indirect
	github.com/golang/mock v1.6.0 // indirect
	github.com/pkg/errors v0.9.1 // indirect
	github.com/sirupsen/logrus v1.8.1 // indirect
	golang.org/x/net v0.0.0-20220722155237-a158d28d115b // indirect
	golang.org/x/sync v0.0.0-20220722155255-886fb9371eb4 // indirect
	golang.org/x/sys v0.0.0-20220804214406-8e32c043e418 // indirect
)

replace github.com/facebookincubator/dns/dnsrocks => /repo/dnsrocks

replace github.com/repustate/go-cdb => /repo/dnsrocks/go-cdb-mods
