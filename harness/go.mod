module verifharness

go 1.18

require (
	github.com/facebookincubator/dns/dnsrocks v0.0.0
)

replace github.com/facebookincubator/dns/dnsrocks => /repo/dnsrocks

replace github.com/repustate/go-cdb => /repo/dnsrocks/go-cdb-mods
