// Package complib is shared by the C07 (compilation) and C08 (apply diff)
// harnesses: the line-by-line reference use of the implementation's own codec,
// full dumps of compiled databases (RocksDB through the iterator, CDB through
// ForEachKeys) as key -> list of values, multiset comparison of such dumps and a
// small grammar based generator of data files.
package complib

import (
	"bytes"
	"errors"
	"fmt"
	"io"
	"os"
	"sort"

	rocksdb "github.com/facebookincubator/dns/dnsrocks/cgo-rocksdb"
	"github.com/facebookincubator/dns/dnsrocks/dnsdata"
	"github.com/facebookincubator/dns/dnsrocks/dnsdata/rdb"
	gocdb "github.com/repustate/go-cdb"

	"verifharness/hlib"
)

// KV is one map record.
type KV struct {
	K []byte
	V []byte
}

// JKV is the JSON form of a record.
type JKV struct {
	K []int `json:"k"`
	V []int `json:"v"`
}

// JEntry is the JSON form of one dumped key with all its values (stored order).
type JEntry struct {
	K  []int   `json:"k"`
	Vs [][]int `json:"vs"`
}

func cp(b []byte) []byte { return append([]byte{}, b...) }

// ToJKV converts records for output.
func ToJKV(l []KV) []JKV {
	r := make([]JKV, len(l))
	for i, x := range l {
		r[i] = JKV{hlib.Ints(x.K), hlib.Ints(x.V)}
	}
	return r
}

// FromJKV is the inverse of ToJKV.
func FromJKV(l []JKV) []KV {
	r := make([]KV, len(l))
	for i, x := range l {
		r[i] = KV{hlib.Unints(x.K), hlib.Unints(x.V)}
	}
	return r
}

// Cfg selects which codec configuration a compiler uses.
type Cfg struct {
	CDB    bool // CDB compiler: plain codec (prefix sets, % records); else RocksDB (range points)
	V2     bool // RocksDB only: v2 key layout
	Serial uint32
}

func (c Cfg) String() string {
	if c.CDB {
		return "cdb"
	}
	if c.V2 {
		return "v2"
	}
	return "v1"
}

// NewCodec builds the codec exactly as the compilers do (rdb.initCodec + UseV2Keys,
// cdb.CreateCDBFromReader).
func NewCodec(c Cfg) *dnsdata.Codec {
	codec := new(dnsdata.Codec)
	codec.Serial = c.Serial
	if !c.CDB {
		codec.Acc.Ranger.Enable()
		codec.Acc.NoPrefixSets = true
		codec.NoRnetOutput = true
		codec.Features.UseV2Keys = c.V2
	}
	return codec
}

// EffectiveLines is the line discipline of dnsdata.parse: lines split at \n (a
// trailing \r dropped, as bufio.ScanLines does), leading spaces removed, lines
// shorter than two bytes and comment lines skipped.
func EffectiveLines(data []byte) [][]byte {
	var res [][]byte
	for len(data) > 0 {
		var line []byte
		if i := bytes.IndexByte(data, '\n'); i >= 0 {
			line, data = data[:i], data[i+1:]
		} else {
			line, data = data, nil
		}
		if n := len(line); n > 0 && line[n-1] == '\r' {
			line = line[:n-1]
		}
		line = bytes.TrimLeft(line, " ")
		if len(line) < 2 || line[0] == '#' {
			continue
		}
		res = append(res, cp(line))
	}
	return res
}

// LineOut is what the codec gave for one line.
type LineOut struct {
	Ok    bool
	Panic bool
	Recs  []KV
	Err   string
}

func toKV(m []dnsdata.MapRecord) []KV {
	r := make([]KV, len(m))
	for i, x := range m {
		r[i] = KV{cp(x.Key), cp(x.Value)}
	}
	return r
}

// ConvertOne calls Codec.ConvertLn on a private copy of the line; a panic of the
// codec is caught and reported.
func ConvertOne(codec *dnsdata.Codec, line []byte) (out LineOut) {
	defer func() {
		if e := recover(); e != nil {
			out = LineOut{Panic: true, Err: fmt.Sprint(e)}
		}
	}()
	m, err := codec.ConvertLn(cp(line))
	if err != nil {
		return LineOut{Err: err.Error()}
	}
	return LineOut{Ok: true, Recs: toKV(m)}
}

// Reference is the line-by-line use of the codec in one goroutine: per line
// output, then the accumulator records, then the feature record.
type Reference struct {
	Lines    []LineOut
	Acc      []KV
	Feat     []KV
	AllOk    bool
	AnyPanic bool
	FirstBad int // index of the first rejected line, -1 if none
}

// Refer computes the reference for the effective lines of a file.
func Refer(c Cfg, lines [][]byte) (*Reference, error) {
	codec := NewCodec(c)
	ref := &Reference{AllOk: true, FirstBad: -1}
	for i, l := range lines {
		o := ConvertOne(codec, l)
		if !o.Ok {
			if ref.AllOk {
				ref.FirstBad = i
			}
			ref.AllOk = false
		}
		if o.Panic {
			ref.AnyPanic = true
		}
		ref.Lines = append(ref.Lines, o)
	}
	m, err := codec.Acc.MarshalMap()
	if err != nil {
		return nil, fmt.Errorf("Acc.MarshalMap: %w", err)
	}
	ref.Acc = toKV(m)
	m, err = codec.Features.MarshalMap()
	if err != nil {
		return nil, fmt.Errorf("Features.MarshalMap: %w", err)
	}
	ref.Feat = toKV(m)
	return ref, nil
}

// Records is the whole record multiset the reference emits (all lines accepted).
func (r *Reference) Records() []KV {
	var res []KV
	for _, l := range r.Lines {
		res = append(res, l.Recs...)
	}
	res = append(res, r.Acc...)
	res = append(res, r.Feat...)
	return res
}

// Dump is a database read back: key -> values in stored order.
type Dump map[string][][]byte

// FromRecords groups a record stream by key, values in stream order.
func FromRecords(l []KV) Dump {
	d := Dump{}
	for _, x := range l {
		d[string(x.K)] = append(d[string(x.K)], x.V)
	}
	return d
}

// Records counts the values of a dump.
func (d Dump) Records() int {
	n := 0
	for _, v := range d {
		n += len(v)
	}
	return n
}

// Keys returns the keys in bytes.Compare order.
func (d Dump) Keys() []string {
	ks := make([]string, 0, len(d))
	for k := range d {
		ks = append(ks, k)
	}
	sort.Strings(ks)
	return ks
}

// JSON returns the dump as a sorted list of entries.
func (d Dump) JSON() []JEntry {
	res := []JEntry{}
	for _, k := range d.Keys() {
		e := JEntry{K: hlib.Ints([]byte(k)), Vs: [][]int{}}
		for _, v := range d[k] {
			e.Vs = append(e.Vs, hlib.Ints(v))
		}
		res = append(res, e)
	}
	return res
}

func sortedVals(vs [][]byte) []string {
	r := make([]string, len(vs))
	for i, v := range vs {
		r[i] = string(v)
	}
	sort.Strings(r)
	return r
}

// SameMultiset compares two dumps as maps key -> multiset of values; on a
// difference it returns the smallest differing key.
func SameMultiset(a, b Dump) (bool, []byte) {
	keys := map[string]bool{}
	for k := range a {
		keys[k] = true
	}
	for k := range b {
		keys[k] = true
	}
	ks := make([]string, 0, len(keys))
	for k := range keys {
		ks = append(ks, k)
	}
	sort.Strings(ks)
	for _, k := range ks {
		x, y := sortedVals(a[k]), sortedVals(b[k])
		if len(x) != len(y) {
			return false, []byte(k)
		}
		for i := range x {
			if x[i] != y[i] {
				return false, []byte(k)
			}
		}
	}
	return true, nil
}

// SameExact compares two dumps including the order of values under each key.
func SameExact(a, b Dump) (bool, []byte) {
	if ok, k := SameMultiset(a, b); !ok {
		return false, k
	}
	for _, k := range a.Keys() {
		for i := range a[k] {
			if !bytes.Equal(a[k][i], b[k][i]) {
				return false, []byte(k)
			}
		}
	}
	return true, nil
}

// DumpRDB opens a RocksDB directory read-only and reads every key with the
// iterator; stored values are split with rdb.ReadNextChunk.
func DumpRDB(dir string) (Dump, error) {
	opts := rocksdb.NewOptions()
	db, err := rocksdb.OpenDatabase(dir, true, false, opts)
	if err != nil {
		opts.FreeOptions()
		return nil, err
	}
	defer db.CloseDatabase()
	ro := rocksdb.NewDefaultReadOptions()
	defer ro.FreeReadOptions()
	it := db.CreateIterator(ro)
	defer it.FreeIterator()
	d := Dump{}
	for it.SeekToFirst(); it.IsValid(); it.Next() {
		k := string(it.Key())
		data := it.Value()
		if len(data) == 0 {
			return nil, fmt.Errorf("key %q stored with an empty value", k)
		}
		for {
			v, rest, err := rdb.ReadNextChunk(data)
			if errors.Is(err, io.EOF) {
				break
			}
			if err != nil {
				return nil, fmt.Errorf("key %q: %w", k, err)
			}
			d[k] = append(d[k], cp(v))
			data = rest
		}
	}
	if err := it.GetError(); err != nil {
		return nil, err
	}
	return d, nil
}

// DumpCDB reads every record of a CDB file.
func DumpCDB(path string) (Dump, error) {
	c, err := gocdb.Open(path)
	if err != nil {
		return nil, err
	}
	defer c.Close()
	d := Dump{}
	// ForEachKeys walks the hash tables, so the order under one key is slot order;
	// the values are then re-read with FindNext to have them in insertion order.
	seen := map[string]bool{}
	var keys []string
	err = c.ForEachKeys(func(_ uint32, key, _ []byte) {
		if !seen[string(key)] {
			seen[string(key)] = true
			keys = append(keys, string(key))
		}
	})
	if err != nil {
		return nil, err
	}
	for _, k := range keys {
		ctx := gocdb.NewContext()
		c.FindStart(ctx)
		for {
			v, err := c.FindNext([]byte(k), ctx)
			if err == io.EOF {
				break
			}
			if err != nil {
				return nil, err
			}
			d[k] = append(d[k], cp(v))
		}
	}
	return d, nil
}

// WriteFile writes a data file and gives it a fixed modification time, so that
// the SOA serial derived from it is the same for every file of a run.
func WriteFile(path string, data []byte, serial uint32) error {
	if err := os.WriteFile(path, data, 0o644); err != nil {
		return err
	}
	return Touch(path, serial)
}
