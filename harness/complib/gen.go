package complib

import (
	"bytes"
	"fmt"
	"os"
	"strings"
	"time"

	"github.com/facebookincubator/dns/dnsrocks/dnsdata"

	"verifharness/hlib"
)

// Touch sets the modification time that dnsdata.DeriveSerial reads.
func Touch(path string, serial uint32) error {
	t := time.Unix(int64(serial), 0)
	return os.Chtimes(path, t, t)
}

// Gen generates data file lines over small pools, so that many records share a key.
type Gen struct {
	R     *hlib.Rng
	Zones []string
	Hosts []string
	Locs  []string // textual two byte locations, "" = none
	Maps  []string
	Nets  []string
}

// NewGen returns a generator with nz zones and nh host labels.
func NewGen(r *hlib.Rng, nz, nh int) *Gen {
	g := &Gen{R: r}
	zones := []string{"example.com", "ex.org", "sub.example.com", "b.c.ex.org", "net", "Example.NET", "xn--a.example.com"}
	hosts := []string{"www", "a", "b", "*.w", "mail", "*", "x.y", "ns1", "deep.er.host", "h\\055q"}
	if nz > len(zones) {
		nz = len(zones)
	}
	if nh > len(hosts) {
		nh = len(hosts)
	}
	g.Zones = zones[:nz]
	g.Hosts = hosts[:nh]
	g.Locs = []string{"", "", "\\000\\001", "\\000\\002", "ab", "\\001\\072"}
	g.Maps = []string{"c\\000", "ec", "Ma"}
	g.Nets = []string{"10.0.0.0/8", "10.1.0.0/16", "10.1.2.0/24", "10.1.2.3/32", "10.1.3.0/24", "192.168.0.0/16",
		"11.0.0.0/8", "0.0.0.0/0", "::/0", "2001:db8::/32", "2001:db8:1::/48", "2001:db8:1:2::/64", "fd00::/8",
		"172.16.0.0/12", "172.16.5.0/24", "1.1.1.1", "2001:db8::1"}
	return g
}

func (g *Gen) pick(l []string) string { return l[g.R.Intn(len(l))] }

func (g *Gen) zone() string { return g.pick(g.Zones) }

func (g *Gen) name() string {
	if g.R.Chance(1, 4) {
		return g.zone()
	}
	return g.pick(g.Hosts) + "." + g.zone()
}

func (g *Gen) plainName() string {
	n := g.name()
	return strings.TrimPrefix(strings.TrimPrefix(n, "*."), "*")
}

func (g *Gen) ip4() string {
	return fmt.Sprintf("%d.%d.%d.%d", 1+g.R.Intn(3), g.R.Intn(2), g.R.Intn(2), 1+g.R.Intn(4))
}

func (g *Gen) ip6() string {
	return fmt.Sprintf("2001:db8:%x::%x", g.R.Intn(3), 1+g.R.Intn(4))
}

func (g *Gen) ip() string {
	if g.R.Chance(1, 3) {
		return g.ip6()
	}
	return g.ip4()
}

func (g *Gen) ttl() string {
	return g.pick([]string{"", "", "300", "3600", "0", "86400", "4294967295", "7"})
}

func (g *Gen) num16() string {
	return g.pick([]string{"", "0", "1", "10", "443", "65535"})
}

// join writes the record with the comma separator, or with the colon when no
// field contains one and the dice say so.
func (g *Gen) join(t string, f ...string) string {
	sep := ","
	if g.R.Chance(1, 5) {
		ok := true
		for _, x := range f {
			if strings.ContainsAny(x, ":,") {
				ok = false
			}
		}
		if ok {
			sep = ":"
		}
	}
	// trailing empty fields are sometimes dropped
	for len(f) > 2 && f[len(f)-1] == "" && g.R.Chance(1, 2) {
		f = f[:len(f)-1]
	}
	return t + strings.Join(f, sep)
}

// Line returns one well formed line of a random resource record type (no subnet lines).
func (g *Gen) Line() string {
	lo := g.pick(g.Locs)
	switch g.R.Pick([]int{2, 3, 2, 12, 3, 2, 2, 3, 2, 3, 3, 1, 1, 2}) {
	case 0:
		return g.join("Z", g.zone(), "ns1."+g.zone(), "adm."+g.zone(), g.pick([]string{"", "1", "2024010101"}), "", "", "", "", g.ttl(), "", lo)
	case 1:
		return g.join("&", g.zone(), g.pick([]string{"", g.ip()}), g.pick([]string{"a", "b", "ns1." + g.zone()}), g.ttl(), "", lo)
	case 2:
		return g.join(".", g.zone(), g.pick([]string{"", g.ip4()}), g.pick([]string{"a", "ns." + g.zone()}), g.ttl(), "", lo)
	case 3:
		return g.join("+", g.name(), g.ip(), g.ttl(), "", lo, g.pick([]string{"", "1", "5", "0"}))
	case 4:
		return g.join("=", g.name(), g.ip(), g.ttl(), "", lo)
	case 5:
		return g.join("@", g.zone(), g.pick([]string{"", g.ip4()}), g.pick([]string{"mx", "mail." + g.zone()}), g.pick([]string{"", "10", "20"}), g.ttl(), "", lo)
	case 6:
		return g.join("S", "_sip._tcp."+g.zone(), g.pick([]string{"", g.ip4()}), g.pick([]string{"s", "sip." + g.zone()}), g.num16(), g.num16(), g.num16(), g.ttl(), "", lo)
	case 7:
		return g.join("C", g.name(), g.plainName(), g.ttl(), "", lo)
	case 8:
		return g.join("^", fmt.Sprintf("%d.0.0.10.in-addr.arpa", g.R.Intn(3)), g.plainName(), g.ttl(), "", lo)
	case 9:
		return g.join("'", g.name(), g.pick([]string{"v=spf1 -all", "hello\\054 world", "", strings.Repeat("x", 130), "a\\072b"}), g.ttl(), "", lo)
	case 10:
		return g.join(":", g.name(), g.pick([]string{"99", "257", "16"}), g.pick([]string{"\\000\\005issue", "abc", ""}), g.ttl(), "", lo)
	case 11:
		return g.join("M", g.name(), g.pick(g.Maps))
	case 12:
		return g.join("8", g.name(), g.pick(g.Maps))
	default:
		t := g.pick([]string{"H", "B"})
		if g.R.Chance(1, 3) {
			return t + strings.Join([]string{g.name(), g.plainName(), g.ttl(), lo, "0", ""}, ",")
		}
		return t + strings.Join([]string{g.name(), g.pick([]string{".", g.plainName()}), g.ttl(), lo, g.pick([]string{"1", "2"}),
			g.pick([]string{"alpn=h3|h2", "port=8443", "alpn=h2;ipv4hint=1.2.3.4", "ipv6hint=2001:db8::1", ""})}, ",")
	}
}

// NetLine returns a subnet line; used[map+net] remembers the location a subnet got
// so that (unless dup is set) no subnet is declared twice with different locations.
func (g *Gen) NetLine(used map[string]string, dup bool) string {
	m := g.pick(g.Maps)
	n := g.pick(g.Nets)
	lo := g.pick([]string{"\\000\\001", "\\000\\002", "ab", "\\001\\072", "zz"})
	if prev, ok := used[m+"|"+n]; ok && !dup {
		lo = prev
	}
	used[m+"|"+n] = lo
	return "%" + lo + "," + n + "," + m
}

// Noise returns a line the parser skips.
func (g *Gen) Noise() string {
	return g.pick([]string{"", "# comment", "   # indented comment", " ", "Z", "#+a.example.com,1.2.3.4"})
}

// white space the line reader must NOT remove at the end of a line (it removes nothing there) nor,
// blanks excepted, at its start: single bytes and UTF-8 sequences (NBSP, NEL, EM SPACE, IDEOGRAPHIC SPACE)
var wsTails = []string{" ", "\t", "\v", "\f", "\x85", "\xa0", "\xc2\xa0", "\xc2\x85", "\xe2\x80\x83", "\xe3\x80\x80",
	"  ", " \t", "\t ", " \r", "\r ", "\r\r"}

// WsTailLine returns a well formed line whose last field ends with white space: text and generic
// payloads, and numeric last fields (TTL, weight, location) that the codec then cannot parse and
// replaces by their defaults.
func (g *Gen) WsTailLine() string {
	ws := g.pick(wsTails)
	n := g.plainName()
	switch g.R.Intn(7) {
	case 0:
		return "'" + n + ",ends with white space" + ws
	case 1:
		return ":" + n + ",99,abc" + ws
	case 2:
		return "+" + n + "," + g.ip4() + ",300" + ws
	case 3:
		return "+" + n + "," + g.ip4() + ",300,,ab" + ws
	case 4:
		return "C" + n + ",target." + g.zone() + ws
	case 5:
		return "+" + n + "," + g.ip4() + ",300,,,7" + ws
	default:
		return "'" + n + "," + ws
	}
}

// WsLeadLine returns a line the reader must hand to the codec although a white-space aware trim
// would make it valid, empty or a comment: other white space than blanks in front of a record or of
// a '#', or at least two bytes of white space only.  The codec rejects every one of them.
func (g *Gen) WsLeadLine() string {
	lead := g.pick([]string{"\t", "\v", "\f", "\r", "\xc2\xa0", " \t", "\t ", "  \t"})
	switch g.R.Intn(5) {
	case 0, 1:
		return lead + g.Line()
	case 2:
		return lead + "# comment"
	case 3:
		return lead + g.pick([]string{"\t", " \t", "\v", "\xc2\xa0"})
	default:
		return lead + "+" + g.plainName() + "," + g.ip4()
	}
}

// WsSkipLine returns a white-space line the reader skips (after the blanks are gone it is shorter than
// two bytes).
func (g *Gen) WsSkipLine() string {
	return g.pick([]string{" ", "\t", " \t", "\r", "  \r", "\v", "    ", "  \xa0", "\f\r"})
}

// BadLine returns a line the codec rejects with an error (never a panic).
func (g *Gen) BadLine() string {
	return g.pick([]string{
		"Qwhat.example.com,1.2.3.4",                // unknown record type
		"+a.example.com,1.2.3.4,,,\\x",             // location does not unquote
		"%,10.0.0.0/8,ec",                          // subnet without a location
		"%ab,10.0.0.0/33,ec",                       // bad CIDR
		"Hwww.example.com,.,300,,1,alpn=",          // SVCB parameter rejected
		"Cwww.example.com,x.example.com,,,\\777\\", // trailing backslash in location
		"?x",
	})
}

// File builds the lines of a data file: n record lines, some subnet lines, noise.
func (g *Gen) File(n int, nets int, dupNets bool, noise bool) []string {
	var lines []string
	used := map[string]string{}
	var pool []string
	for i := 0; i < n; i++ {
		var l string
		if len(pool) > 0 && g.R.Chance(1, 6) {
			l = g.pick(pool) // an exact duplicate line: equal values under one key
		} else {
			l = g.Line()
		}
		pool = append(pool, l)
		lines = append(lines, l)
	}
	for i := 0; i < nets; i++ {
		lines = append(lines, g.NetLine(used, dupNets))
	}
	g.R.Shuffle(len(lines), func(i, j int) { lines[i], lines[j] = lines[j], lines[i] })
	if noise {
		var out []string
		for _, l := range lines {
			if g.R.Chance(1, 5) {
				out = append(out, g.Noise())
			}
			if g.R.Chance(1, 8) {
				l = strings.Repeat(" ", 1+g.R.Intn(3)) + l
			}
			out = append(out, l)
		}
		lines = out
	}
	return lines
}

// Join renders lines as file content; the last line sometimes has no newline.
func Join(lines []string, finalNewline bool) []byte {
	s := strings.Join(lines, "\n")
	if finalNewline && len(lines) > 0 {
		s += "\n"
	}
	return []byte(s)
}

// Preprocess runs the real preprocessor (dnsdata.Codec.Preprocess with the
// settings of cmd/dnsrocks-preproc): subnet lines are replaced by range point
// lines, SOA lines are normalised.
func Preprocess(data []byte, serial uint32) ([]byte, error) {
	codec := new(dnsdata.Codec)
	codec.Acc.Ranger.Enable()
	codec.Acc.NoPrefixSets = true
	codec.NoRnetOutput = true
	codec.Serial = serial
	var out bytes.Buffer
	if err := codec.Preprocess(bytes.NewReader(data), &out); err != nil {
		return nil, err
	}
	return out.Bytes(), nil
}
