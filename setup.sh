#!/bin/sh
# Builds the framework offline from files on disk: Coq development (full .vo build) and Go harness binaries.
set -e
cd "$(dirname "$0")"
export GOFLAGS=-mod=mod GOPROXY=off GOSUMDB=off GOTOOLCHAIN=local
python3 - <<'PY'
import sys, os
sys.path.insert(0, "lib")
import checklib
class P: ID = "setup"
ctx = checklib.Ctx(P, "quick", 0)
rc, out = checklib.coq_make(ctx, [])
print(out[-3000:])
ctx.cleanup()
sys.exit(rc)
PY
cp /repo/dnsrocks/go.sum harness/go.sum
mkdir -p harness/bin
for d in harness/cmd/*/; do
  n=$(basename "$d")
  (cd harness && go build -tags verif -ldflags=-checklinkname=0 -o bin/$n ./cmd/$n) || echo "setup: harness $n did not build (its check will report it)"
done
echo setup done
