#!/bin/sh
# Builds the framework offline from files on disk: Coq development (full .vo build) and Go harness binaries.
set -e
cd "$(dirname "$0")"
export GOFLAGS=-mod=mod GOPROXY=off GOSUMDB=off GOTOOLCHAIN=local
python3 - <<'PY'
import sys, os, json
sys.path.insert(0, "lib")
import checklib
class P: ID = "setup"
ctx = checklib.Ctx(P, "quick", 0)
props = [c["property_id"] for c in json.load(open("MANIFEST.json"))["checks"]]
targets = []
for p in props:
    targets += ["Run/%s.vo" % p, "Properties/%s.vo" % p]
    sys.path.insert(0, "lib")
    try:
        mod = __import__("props." + p.lower(), fromlist=["x"])
        if hasattr(mod, "pre_build"):
            ctx.prop = mod
            mod.pre_build(ctx)
        targets += list(getattr(mod, "EXTRA_TARGETS", []))
    except Exception as e:
        print("setup: props module of", p, "->", e)
rc, out = checklib.coq_make(ctx, targets)
print(out[-3000:])
ctx.cleanup()
sys.exit(rc)
PY
cp /repo/dnsrocks/go.sum harness/go.sum
mkdir -p harness/bin
for n in $(python3 -c "
import json,sys
sys.path.insert(0,'lib')
seen=[]
for c in json.load(open('MANIFEST.json'))['checks']:
    m=__import__('props.'+c['property_id'].lower(), fromlist=['x'])
    for h in [getattr(m,'HARNESS',None)]+list(getattr(m,'EXTRA_HARNESS',[])):
        if h and h not in seen: seen.append(h)
print(' '.join(seen))"); do
  (cd harness && go build -tags verif -ldflags=-checklinkname=0 -o bin/$n ./cmd/$n) || echo "setup: harness $n did not build (its check will report it)"
done
echo setup done
